"""Harness-side library.  Plain Python: importable without CrossHair (replays run under
/venv/bin/python).  A harness module /verif/harness/Cxx.py defines

    def obligations(tier: str) -> list[Ob]

Every Ob is one proof obligation: a list of typed symbolic parameters, a precondition
(the stated bound + the property's validity predicate), and a body that drives the real
praatio code and compares it with an independent oracle.  The body returns True when the
property holds on that input and a short failure tag (str) otherwise; any exception that
escapes the body is a failure too.
"""
import os
import sys

ROOT = os.environ.get("PRAATIO_ROOT", "/repo")
if ROOT not in sys.path:
    sys.path.insert(0, ROOT)
_HERE = os.path.dirname(os.path.dirname(os.path.abspath(__file__)))
if _HERE not in sys.path:
    sys.path.insert(0, _HERE)

EPS = 2.0 ** -16  # separation bound for 'real' mode (DESIGN 2.2)


class Ob:
    def __init__(
        self,
        name,
        params,
        body,
        pre=None,
        fmode=None,
        timeout=60,
        setup=None,
        canaries=(),
        known=None,
        funcs=(),
        bounds="",
        kind="ch",
        nontrivial=True,
        smt=None,
    ):
        self.name = name
        self.params = list(params)  # [(name, type)]
        self.body = body
        self.pre = pre
        self.fmode = fmode  # 'ieee' | 'real' | None
        self.timeout = timeout
        self.setup = setup  # callable -> optional teardown callable
        self.canaries = list(canaries)
        self.known = known  # id in known_findings.json this obligation is the region of
        self.funcs = list(funcs)
        self.bounds = bounds
        self.kind = kind  # 'ch' (CrossHair) | 'smt' (direct solver query, see ksmt/rxq)
        self.nontrivial = nontrivial
        self.smt = smt  # kind == 'smt': callable() -> dict(verdict, queries, cex, detail)

    def engine_label(self):
        if self.kind != "ch":
            return self.kind
        return {"ieee": "CH-ieee", "real": "CH-real", None: "CH-int/str"}[self.fmode]


def F(*names):
    return [(n, float) for n in names]


def I(*names):
    return [(n, int) for n in names]


def S(*names):
    return [(n, str) for n in names]


def B(*names):
    return [(n, bool) for n in names]


def sep(*xs):
    """Any two values are equal or at least EPS apart (real-mode replayability bound).
    Written with the non-short-circuit operators & and | so that under CrossHair the
    whole predicate becomes ONE solver constraint instead of forking per pair."""
    ok = True
    n = len(xs)
    for i in range(n):
        for j in range(i + 1, n):
            d = xs[i] - xs[j]
            ok = ok & ((d == 0) | (d >= EPS) | (d <= -EPS))
    return ok


def asc(*xs):
    """xs[0] <= xs[1] <= ...  (non-forking)"""
    ok = True
    for a, b in zip(xs, xs[1:]):
        ok = ok & (a <= b)
    return ok


def within(lo, hi, *xs):
    ok = True
    for x in xs:
        ok = ok & (lo <= x) & (x <= hi)
    return ok


def finite(*xs):
    ok = True
    for x in xs:
        ok = ok & (x == x) & (x - x == 0)
    return ok


def in_alphabet(s, alphabet, maxlen):
    if len(s) > maxlen:
        return False
    for ch in s:
        if ch not in alphabet:
            return False
    return True


# --- snapshots / well-formedness ------------------------------------------------------


def snap_tier(t):
    return (
        type(t).__name__,
        t.name,
        t.minTimestamp,
        t.maxTimestamp,
        [tuple(e) for e in t._entries],
    )


def snap_tg(tg):
    return (
        tg.minTimestamp,
        tg.maxTimestamp,
        [snap_tier(t) for t in tg.tiers],
        list(tg.tierNames),
    )


def wf_interval(t):
    """Well-formedness of an IntervalTier as stated by C05."""
    es = t.entries
    for e in es:
        if not (e[0] < e[1]):
            return False
        if not (t.minTimestamp <= e[0] and e[1] <= t.maxTimestamp):
            return False
        if e[2] != e[2].strip():
            return False
    for x, y in zip(es, es[1:]):
        if not (x[1] <= y[0]):
            return False
    return True


def wf_point(t):
    es = t.entries
    for e in es:
        if not (t.minTimestamp <= e[0] <= t.maxTimestamp):
            return False
        if e[1] != e[1].strip():
            return False
    for x, y in zip(es, es[1:]):
        if not (x[0] <= y[0]):
            return False
    return True


def ivs_wf_pre(lo, hi, *ts):
    """ts = s1,e1,s2,e2,... ; lo <= s1 < e1 <= s2 < e2 ... <= hi   (non-forking)"""
    ok = True
    prev = lo
    for i in range(0, len(ts), 2):
        s, e = ts[i], ts[i + 1]
        ok = ok & (prev <= s) & (s < e)
        prev = e
    return ok & (prev <= hi)


def pts_wf_pre(lo, hi, *ts, strict=True):
    """lo <= t1 < t2 < ... <= hi (<= between points when strict=False)"""
    ok = True
    prev = lo
    first = True
    for t in ts:
        if first or not strict:
            ok = ok & (prev <= t)
        else:
            ok = ok & (prev < t)
        prev = t
        first = False
    return ok & (prev <= hi)


LABELS = ["x", "y", "z", "w"]


def mk_ivs(ts, labels=LABELS):
    from praatio.utilities.constants import Interval

    return [
        Interval(ts[2 * i], ts[2 * i + 1], labels[i]) for i in range(len(ts) // 2)
    ]


def tuples(entries):
    return [tuple(e) for e in entries]


# ----------------------------------------------------------------- anchors
def not_encoded(name, msg, funcs=()):
    """marker obligation: the code no longer has the shape a slicer looks for, so this part
    of the encoding cannot be regenerated from the current source.  It is reported (NOT-ENCODED)
    and listed in the evidence, it decides nothing and it raises no alarm."""
    return Ob(name + "-anchor", [], lambda: True, kind="smt", smt=lambda: {"verdict": "NOT-ENCODED", "detail": msg}, timeout=30, funcs=list(funcs), bounds="AST anchor check")


def guard(obs, name, thunk, funcs=()):
    """obs += thunk(); an AssertionError / AnchorMissing / Unsupported raised while the
    obligations are built from the current AST becomes a NOT-ENCODED marker"""
    try:
        new = thunk()
    except Exception as e:  # noqa
        if not (isinstance(e, AssertionError) or type(e).__name__ in ("AnchorMissing", "Unsupported", "RxUnsupported")):
            raise
        new = [not_encoded(name, "%s" % e, funcs)]
    obs.extend(new if isinstance(new, list) else [new])
