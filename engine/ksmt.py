"""KSMT-fp: a small path-enumerating symbolic interpreter for straight-line float kernels
sliced from the CURRENT source of praatio (ast), producing z3 QF_FP terms (binary64,
round-nearest-even).  Used for the rounding clauses of C07/C08/C16 where CrossHair's IEEE
mode is too slow.  Every query is cross-checked with the cvc5 binary (SMT-LIB dump).

Subset interpreted: assignments, if/elif/else, return, raise, continue/pass,
`lst.append(x)`, + - * /, unary -, comparisons, and/or/not, round(), abs(), max(), min(),
float(), int literals, tuple/list displays, subscripts with constant index, attribute
access on records, calls of names bound to Python callables in the concrete environment
(e.g. Interval(...)).  Anything else raises Unsupported -> the obligation is a harness
error naming the construct (never a silent pass).
"""
import ast
import math
import inspect
import os
import struct
import subprocess
import tempfile
import textwrap
import time

import z3

F64 = z3.Float64()
RNE = z3.RNE()


class Unsupported(Exception):
    pass


class AnchorMissing(Exception):
    pass


def fpv(x):
    return z3.FPVal(float(x), F64)


def is_sym(v):
    return isinstance(v, z3.ExprRef)


def to_fp(v):
    if is_sym(v):
        return v
    if isinstance(v, bool):
        raise Unsupported("bool used as number")
    if isinstance(v, (int, float)):
        return fpv(v)
    raise Unsupported("not a number: %r" % (v,))


class Rec:
    """A record with named fields (stands for Interval/Point/self/interval objects)."""

    def __init__(self, _fields=None, **kw):
        self.__dict__["f"] = dict(kw)
        self.__dict__["order"] = list(_fields or kw.keys())

    def __getattr__(self, k):
        try:
            return self.__dict__["f"][k]
        except KeyError:
            raise Unsupported("record has no field " + k)

    def __getitem__(self, i):
        return self.f[self.order[i]]

    def __iter__(self):
        return iter(self.f[k] for k in self.order)

    def __repr__(self):
        return "Rec(%s)" % ", ".join("%s=%s" % (k, self.f[k]) for k in self.order)


class Fmt:
    """result of `template % args` or repr(x): formatting is C-level, the obligation
    interprets it by its documented contract"""

    def __init__(self, template, args):
        self.template = template
        self.args = args

    def __repr__(self):
        return "Fmt(%r, %r)" % (self.template, self.args)


class _Return(Exception):
    def __init__(self, v):
        self.v = v


class _Raise(Exception):
    def __init__(self, what):
        self.what = what


class _Continue(Exception):
    pass


class Ctx:
    def __init__(self, prefix):
        self.prefix = prefix
        self.taken = []
        self.pc = []
        self.pending = []

    def branch(self, cond):
        """cond: python bool or z3 BoolRef -> python bool (forks on symbolic)."""
        if isinstance(cond, bool):
            return cond
        if not is_sym(cond):
            return bool(cond)
        cond = z3.simplify(cond)
        if z3.is_true(cond):
            return True
        if z3.is_false(cond):
            return False
        i = len(self.taken)
        if i < len(self.prefix):
            d = self.prefix[i]
        else:
            d = True
            self.pending.append(self.taken + [False])
        self.taken.append(d)
        self.pc.append(cond if d else z3.Not(cond))
        return d


class Interp:
    def __init__(self, ctx, env):
        self.ctx = ctx
        self.env = env

    # ---- expressions
    def ev(self, n):
        m = getattr(self, "e_" + type(n).__name__, None)
        if m is None:
            raise Unsupported(ast.dump(n)[:200])
        return m(n)

    def e_Constant(self, n):
        return n.value

    def e_Name(self, n):
        if n.id in self.env:
            return self.env[n.id]
        if n.id in ("True", "False", "None"):
            return {"True": True, "False": False, "None": None}[n.id]
        raise Unsupported("unbound name " + n.id)

    def e_Attribute(self, n):
        base = self.ev(n.value)
        if isinstance(base, Rec):
            return getattr(base, n.attr)
        return getattr(base, n.attr)

    def e_Tuple(self, n):
        return tuple(self.ev(e) for e in n.elts)

    def e_List(self, n):
        return [self.ev(e) for e in n.elts]

    def e_Subscript(self, n):
        base = self.ev(n.value)
        idx = self.ev(n.slice)
        if is_sym(idx):
            raise Unsupported("symbolic index")
        return base[idx]

    def e_UnaryOp(self, n):
        v = self.ev(n.operand)
        if isinstance(n.op, ast.Not):
            if is_sym(v):
                return z3.Not(v)
            return not v
        if isinstance(n.op, ast.USub):
            if is_sym(v):
                return z3.fpNeg(v)
            return -v
        raise Unsupported("unary " + type(n.op).__name__)

    def e_BinOp(self, n):
        a, b = self.ev(n.left), self.ev(n.right)
        if isinstance(n.op, ast.Mod) and isinstance(a, str):
            return Fmt(a, b if isinstance(b, tuple) else (b,))
        if not is_sym(a) and not is_sym(b):
            if isinstance(n.op, ast.Add):
                return a + b
            if isinstance(n.op, ast.Sub):
                return a - b
            if isinstance(n.op, ast.Mult):
                return a * b
            if isinstance(n.op, ast.Div):
                return a / b
            raise Unsupported("binop " + type(n.op).__name__)
        a, b = to_fp(a), to_fp(b)
        op = {ast.Add: z3.fpAdd, ast.Sub: z3.fpSub, ast.Mult: z3.fpMul, ast.Div: z3.fpDiv}.get(type(n.op))
        if op is None:
            raise Unsupported("binop " + type(n.op).__name__)
        return op(RNE, a, b)

    def cmp(self, op, a, b):
        if not is_sym(a) and not is_sym(b):
            t = type(op)
            if t is ast.Lt:
                return a < b
            if t is ast.LtE:
                return a <= b
            if t is ast.Gt:
                return a > b
            if t is ast.GtE:
                return a >= b
            if t is ast.Eq:
                return a == b
            if t is ast.NotEq:
                return a != b
            return self._cmp_other(op, a, b)
        a, b = to_fp(a), to_fp(b)
        f = {ast.Lt: z3.fpLT, ast.LtE: z3.fpLEQ, ast.Gt: z3.fpGT, ast.GtE: z3.fpGEQ, ast.Eq: z3.fpEQ, ast.NotEq: z3.fpNEQ}.get(type(op))
        if f is None:
            raise Unsupported("compare " + type(op).__name__)
        return f(a, b)

    def _cmp_other(self, op, a, b):
        if isinstance(op, ast.Is):
            return a is b
        if isinstance(op, ast.IsNot):
            return a is not b
        if isinstance(op, ast.In):
            return a in b
        if isinstance(op, ast.NotIn):
            return a not in b
        raise Unsupported("compare " + type(op).__name__)

    def e_Compare(self, n):
        left = self.ev(n.left)
        res = True
        for op, c in zip(n.ops, n.comparators):
            right = self.ev(c)
            r = self.cmp(op, left, right)
            if not self.ctx.branch(r):
                return False
            left = right
        return res

    def e_BoolOp(self, n):
        if isinstance(n.op, ast.And):
            v = True
            for e in n.values:
                v = self.ev(e)
                if not self.ctx.branch(v):
                    return False
            return True
        v = False
        for e in n.values:
            v = self.ev(e)
            if self.ctx.branch(v):
                return True
        return False

    def e_JoinedStr(self, n):
        # message text: opaque (its characters are never part of a claim)
        return Fmt("fstring", tuple(self.ev(v.value) for v in n.values if isinstance(v, ast.FormattedValue)))

    def e_Lambda(self, n):
        params = [a.arg for a in n.args.args]
        if n.args.vararg or n.args.kwarg or n.args.kwonlyargs or n.args.defaults:
            raise Unsupported("lambda with defaults/varargs")

        def call(*vals):
            if len(vals) != len(params):
                raise Unsupported("lambda arity")
            env = dict(self.env)
            env.update(zip(params, vals))
            return Interp(self.ctx, env).ev(n.body)

        return call

    def e_ListComp(self, n):
        if len(n.generators) != 1 or n.generators[0].is_async:
            raise Unsupported("comprehension with several generators")
        g = n.generators[0]
        seq = self.ev(g.iter)
        if not isinstance(seq, (list, tuple)):
            raise Unsupported("comprehension over " + type(seq).__name__)
        out = []
        saved = dict(self.env)
        for item in list(seq):
            self.assign(g.target, item)
            if all(self.ctx.branch(self.ev(c)) for c in g.ifs):
                out.append(self.ev(n.elt))
        # comprehension variables do not leak (python 3 scoping)
        for k in list(self.env):
            if k not in saved:
                del self.env[k]
            else:
                self.env[k] = saved[k] if k in [x.id for x in ast.walk(g.target) if isinstance(x, ast.Name)] else self.env[k]
        return out

    def e_IfExp(self, n):
        return self.ev(n.body) if self.ctx.branch(self.ev(n.test)) else self.ev(n.orelse)

    def e_Call(self, n):
        if isinstance(n.func, ast.Attribute) and n.func.attr == "append":
            lst = self.ev(n.func.value)
            lst.append(self.ev(n.args[0]))
            return None
        fname = n.func.id if isinstance(n.func, ast.Name) else None
        args = [self.ev(a) for a in n.args]
        if n.keywords:
            f = self.ev(n.func)
            if f is math.isclose and all(k.arg in ("rel_tol", "abs_tol") for k in n.keywords):
                return self.math_isclose(*args, **{k.arg: self.ev(k.value) for k in n.keywords})
            if fname in ("min", "max") and len(args) == 1 and [k.arg for k in n.keywords] == ["key"] and isinstance(args[0], (list, tuple)) and len(args[0]) > 0:
                # python: the FIRST element whose key is strictly smaller (larger) than all before it
                keyf = self.ev(n.keywords[0].value)
                best = args[0][0]
                kb = keyf(best)
                for x in args[0][1:]:
                    kx = keyf(x)
                    if self.ctx.branch(self.cmp(ast.Lt() if fname == "min" else ast.Gt(), kx, kb)):
                        best, kb = x, kx
                return best
            raise Unsupported("keyword call")
        if fname == "round" and len(args) == 1:
            if is_sym(args[0]):
                return z3.fpRoundToIntegral(RNE, args[0])
            return round(args[0])
        if fname == "int" and len(args) == 1:
            if is_sym(args[0]):
                return z3.fpRoundToIntegral(z3.RTZ(), args[0])
            return int(args[0])
        if fname == "repr" and len(args) == 1:
            return Fmt("repr", (args[0],))
        if fname == "float" and len(args) == 1:
            v = args[0]
            # float("%s" % tok) / float(repr(x)): identity on the denoted number (str/repr contract)
            while isinstance(v, Fmt) and v.template in ("%s", "repr") and len(v.args) == 1:
                v = v.args[0]
            return v if is_sym(v) else float(v)
        if fname == "abs" and len(args) == 1:
            return z3.fpAbs(args[0]) if is_sym(args[0]) else abs(args[0])
        if fname in ("max", "min") and len(args) == 2:
            a, b = args
            if not is_sym(a) and not is_sym(b):
                return max(a, b) if fname == "max" else min(a, b)
            # python: max(a,b) = b if b > a else a ; min(a,b) = b if b < a else a
            c = self.cmp(ast.Gt() if fname == "max" else ast.Lt(), b, a)
            return b if self.ctx.branch(c) else a
        f = self.ev(n.func)
        if inspect.isfunction(f) and (getattr(f, "__module__", "") or "").startswith("praatio"):
            return self.inline(f, args)
        if f is math.isclose and len(args) == 2:
            return self.math_isclose(*args)
        if callable(f) and not is_sym(f):
            if inspect.isbuiltin(f) and any(is_sym(a) for a in args):
                raise Unsupported("call of %s with symbolic arguments" % ast.unparse(n.func)[:60])
            return f(*args)
        raise Unsupported("call " + ast.unparse(n)[:80])

    def math_isclose(self, a, b, rel_tol=1e-09, abs_tol=0.0):
        """CPython's math.isclose on finite doubles (Modules/mathmodule.c):
        a == b or |b-a| <= |rel_tol*b| or |b-a| <= |rel_tol*a| or |b-a| <= abs_tol"""
        if not (is_sym(a) or is_sym(b)):
            return math.isclose(a, b, rel_tol=rel_tol, abs_tol=abs_tol)
        a = a if is_sym(a) else fpv(float(a))
        b = b if is_sym(b) else fpv(float(b))
        if self.ctx.branch(z3.fpEQ(a, b)):
            return True
        diff = z3.fpAbs(z3.fpSub(RNE, b, a))
        rt = fpv(float(rel_tol))
        if self.ctx.branch(z3.fpLEQ(diff, z3.fpAbs(z3.fpMul(RNE, rt, b)))):
            return True
        if self.ctx.branch(z3.fpLEQ(diff, z3.fpAbs(z3.fpMul(RNE, rt, a)))):
            return True
        return self.ctx.branch(z3.fpLEQ(diff, fpv(float(abs_tol))))

    def inline(self, f, args):
        """interpret the body of a praatio function with the given (possibly symbolic)
        positional arguments; defaults are taken from the signature"""
        fdef = func_ast(f)
        sig = inspect.signature(f)
        ba = sig.bind(*args)
        ba.apply_defaults()
        env = dict(f.__globals__)
        env.update(ba.arguments)
        sub = Interp(self.ctx, env)
        try:
            sub.run(fdef.body)
        except _Return as r:
            return r.v
        return None

    # ---- statements
    def run(self, stmts):
        for s in stmts:
            m = getattr(self, "s_" + type(s).__name__, None)
            if m is None:
                raise Unsupported("stmt " + type(s).__name__)
            m(s)

    def s_Assign(self, s):
        v = self.ev(s.value)
        for t in s.targets:
            self.assign(t, v)

    def assign(self, t, v):
        if isinstance(t, ast.Name):
            self.env[t.id] = v
        elif isinstance(t, (ast.Tuple, ast.List)):
            vs = list(v)
            if len(vs) != len(t.elts):
                raise Unsupported("unpack arity")
            for tt, vv in zip(t.elts, vs):
                self.assign(tt, vv)
        else:
            raise Unsupported("assign target " + type(t).__name__)

    def s_AnnAssign(self, s):
        if s.value is not None:
            self.assign(s.target, self.ev(s.value))

    def s_AugAssign(self, s):
        if not isinstance(s.target, ast.Name):
            raise Unsupported("augassign target")
        cur = self.e_Name(s.target)
        self.env[s.target.id] = self._aug(s.op, cur, self.ev(s.value))

    def _aug(self, op, a, b):
        if not is_sym(a) and not is_sym(b):
            return {ast.Add: lambda: a + b, ast.Sub: lambda: a - b, ast.Mult: lambda: a * b, ast.Div: lambda: a / b}[type(op)]()
        f = {ast.Add: z3.fpAdd, ast.Sub: z3.fpSub, ast.Mult: z3.fpMul, ast.Div: z3.fpDiv}[type(op)]
        return f(RNE, to_fp(a), to_fp(b))

    def s_If(self, s):
        if self.ctx.branch(self.ev(s.test)):
            self.run(s.body)
        else:
            self.run(s.orelse)

    def s_Expr(self, s):
        if isinstance(s.value, ast.Constant):
            return
        self.ev(s.value)

    def s_Return(self, s):
        raise _Return(self.ev(s.value) if s.value is not None else None)

    def s_Raise(self, s):
        name = "Exception"
        if s.exc is not None:
            e = s.exc.func if isinstance(s.exc, ast.Call) else s.exc
            name = ast.unparse(e)
        raise _Raise(name)

    def s_Continue(self, s):
        raise _Continue()

    def s_For(self, s):
        """for over a concrete Python list/tuple (its elements may be symbolic): unrolled"""
        seq = self.ev(s.iter)
        if not isinstance(seq, (list, tuple)):
            raise Unsupported("for over " + type(seq).__name__)
        if s.orelse:
            raise Unsupported("for-else")
        for item in list(seq):
            self.assign(s.target, item)
            try:
                self.run(s.body)
            except _Continue:
                continue

    def s_Pass(self, s):
        return


def explore(stmts, make_env, max_paths=256):
    """Enumerate all syntactic paths of `stmts`.  make_env() -> fresh env dict.
    Returns list of (pc:list[BoolRef], env, outcome) with outcome in
    ('fall',None) | ('return',v) | ('raise',name) | ('continue',None)."""
    out = []
    stack = [[]]
    while stack:
        if len(out) > max_paths:
            raise Unsupported("too many paths")
        prefix = stack.pop()
        ctx = Ctx(prefix)
        env = make_env()
        it = Interp(ctx, env)
        try:
            it.run(stmts)
            oc = ("fall", None)
        except _Return as r:
            oc = ("return", r.v)
        except _Raise as r:
            oc = ("raise", r.what)
        except _Continue:
            oc = ("continue", None)
        out.append((ctx.pc, env, oc))
        stack.extend(ctx.pending)
    return out


# ---- slicing helpers -----------------------------------------------------------------
def func_ast(func):
    src = textwrap.dedent(inspect.getsource(func))
    return ast.parse(src).body[0]


def find_for(fdef, iter_src, nth=0):
    hits = [n for n in ast.walk(fdef) if isinstance(n, ast.For) and ast.unparse(n.iter) == iter_src]
    if len(hits) <= nth:
        raise AnchorMissing("for-loop over `%s` (#%d) not found in %s" % (iter_src, nth, fdef.name))
    return hits[nth]


def find_return(fdef):
    hits = [n for n in ast.walk(fdef) if isinstance(n, ast.Return)]
    if len(hits) != 1:
        raise AnchorMissing("expected exactly one return in " + fdef.name)
    return hits[0]


# ---- solving ----------------------------------------------------------------------------
def fp_to_float(m, x):
    bv = m.eval(z3.fpToIEEEBV(x), model_completion=True)
    return struct.unpack("<d", struct.pack("<Q", bv.as_long()))[0]


def cvc5_check(solver, timeout_s):
    """returns 'sat' | 'unsat' | 'unknown' from the cvc5 binary on the SMT-LIB dump."""
    txt = "(set-logic QF_FP)\n" + solver.to_smt2()
    d = tempfile.mkdtemp(prefix="verif_ksmt_")
    fn = os.path.join(d, "q.smt2")
    try:
        with open(fn, "w") as f:
            f.write(txt)
        try:
            p = subprocess.run(["cvc5", "--tlimit=%d" % int(timeout_s * 1000), fn], capture_output=True, text=True, timeout=timeout_s + 10)
        except (subprocess.TimeoutExpired, FileNotFoundError):
            return "unknown"
        o = p.stdout.strip().splitlines()
        if "(error" in p.stdout or "(error" in p.stderr:
            return "unknown"
        return o[0] if o and o[0] in ("sat", "unsat") else "unknown"
    finally:
        import shutil

        shutil.rmtree(d, ignore_errors=True)


def decide(assumptions, negated_claim, timeout_s, variables):
    """Is `assumptions and negated_claim` satisfiable?  z3 first; cvc5 must not disagree.
    returns dict(result='holds'|'cex'|'unknown', model={name: float}, z3=..., cvc5=..., s=...)"""
    s = z3.Solver()
    s.set("timeout", int(timeout_s * 1000))
    for a in assumptions:
        s.add(a)
    s.add(negated_claim)
    t0 = time.time()
    r = str(s.check())
    dt = time.time() - t0
    res = {"z3": r, "s": round(dt, 2)}
    if r == "sat":
        m = s.model()
        res["model"] = {k: fp_to_float(m, v) for k, v in variables.items()}
        res["result"] = "cex"  # confirmed by concrete replay, not by a second solver
        res["cvc5"] = "skipped (model is replayed concretely)"
        return res
    c = cvc5_check(s, timeout_s)
    res["cvc5"] = c
    if r == "unsat" and c in ("unsat",):
        res["result"] = "holds"
    elif r == "unsat" and c == "unknown":
        res["result"] = "holds-z3-only"
    elif r == "unknown" and c == "unsat":
        res["result"] = "holds-cvc5-only"
    elif c == "sat":
        res["result"] = "unknown"
        res["detail"] = "cvc5 reports sat where z3 reports %s" % r
    else:
        res["result"] = "unknown"
    return res
