"""Replay a counterexample against the real code with plain Python (no CrossHair, no
shims).  Run under the repository's interpreter:

    /venv/bin/python engine/replay.py <replay.json>

Prints one JSON line {"outcome": "reproduced"|"not-reproduced"|"pre-false", "tag": ...}
and exits 0 (the caller interprets the outcome).  With --human prints a readable report
and exits 1 when the violation reproduces.
"""
import importlib.util
import json
import os
import sys
import traceback

HERE = os.path.dirname(os.path.abspath(__file__))
sys.path.insert(0, os.path.dirname(HERE))


def load_module(path):
    name = "harness_" + os.path.splitext(os.path.basename(path))[0]
    spec = importlib.util.spec_from_file_location(name, path)
    mod = importlib.util.module_from_spec(spec)
    sys.modules[name] = mod
    spec.loader.exec_module(mod)
    return mod


def dec(d):
    if d["t"] == "float":
        return float("nan") if d["v"] == "nan" else float.fromhex(d["v"])
    return d["v"]


def replay(rec):
    mod = load_module(os.path.join(os.path.dirname(HERE), rec["module"]))
    ob = None
    for o in mod.obligations(rec["tier"]):
        if o.name == rec["ob"]:
            ob = o
    if ob is None:
        return {"outcome": "error", "tag": "no such obligation"}
    args = [dec(rec["cex"][n]) for n, _ in ob.params]
    teardown = ob.setup() if ob.setup else None
    try:
        if ob.pre is not None:
            try:
                if not ob.pre(*args):
                    return {"outcome": "pre-false", "tag": None}
            except Exception as e:  # noqa
                return {"outcome": "pre-false", "tag": "pre raised " + repr(e)}
        try:
            r = ob.body(*args)
        except Exception as e:  # noqa
            tb = traceback.extract_tb(e.__traceback__)
            if isinstance(e, (NameError, UnboundLocalError)) and tb and tb[-1].filename.startswith("<"):
                # the statement slice taken from the current AST no longer stands on its own
                # (a name it uses is now defined outside the sliced statements): nothing was decided
                return {"outcome": "slice-broken", "tag": "%s in %s: %s" % (type(e).__name__, tb[-1].filename, str(e)[:200])}
            inner = ""
            for fr in reversed(tb):
                if "/praatio/" in fr.filename:
                    inner = "%s:%s" % (os.path.basename(fr.filename), fr.name)
                    break
            return {
                "outcome": "reproduced",
                "tag": "exception " + type(e).__name__ + (" in " + inner if inner else ""),
                "detail": str(e)[:300],
            }
        if r is True:
            return {"outcome": "not-reproduced", "tag": None}
        return {"outcome": "reproduced", "tag": str(r)}
    finally:
        if teardown:
            teardown()


def main():
    human = "--human" in sys.argv
    path = [a for a in sys.argv[1:] if not a.startswith("--")][0]
    rec = json.load(open(path))
    import io
    import contextlib

    buf = io.StringIO()
    with contextlib.redirect_stdout(buf):
        res = replay(rec)
    if human:
        print("obligation :", rec["ob"], "(%s, %s)" % (rec["module"], rec["tier"]))
        print("arguments  :", {k: dec(v) for k, v in rec["cex"].items()})
        print("outcome    :", res)
        sys.exit(1 if res["outcome"] == "reproduced" else 0)
    print(json.dumps(res))


if __name__ == "__main__":
    main()
