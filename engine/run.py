"""Orchestrator: ./check <Cxx> [--tier quick|thorough] [--only SUBSTR] [--jobs N]
                  ./check --replay <replay.json>

Runs every obligation of harness/<Cxx>.py in its own worker process (16 at a time),
replays counterexamples against the real code under /venv/bin/python, matches them
against known_findings.json, writes evidence/<Cxx>.json and sets the exit code:
0 = property held on everything explored (UNKNOWN obligations are listed, not hidden),
1 = at least one replayed, unlisted violation (VIOLATION line printed),
3 = harness error (vacuous obligation, missing anchor, worker crash).
"""
import concurrent.futures as cf
import importlib.util
import json
import os
import shutil
import subprocess
import sys
import tempfile
import time

VERIF = os.path.dirname(os.path.dirname(os.path.abspath(__file__)))
sys.path.insert(0, VERIF)
os.environ.setdefault("PYTHONDONTWRITEBYTECODE", "1")
sys.dont_write_bytecode = True

PY_VT = shutil.which("python3-vt") or "/opt/veriftools/pyvenv/bin/python"
PY_REPO = "/venv/bin/python"
ROOT = os.environ.get("PRAATIO_ROOT", "/repo")


def load_module(path):
    name = "harness_" + os.path.splitext(os.path.basename(path))[0]
    spec = importlib.util.spec_from_file_location(name, path)
    mod = importlib.util.module_from_spec(spec)
    sys.modules[name] = mod
    spec.loader.exec_module(mod)
    return mod


def run_worker(modrel, ob, tier, scratch, idx, canary=None):
    out = os.path.join(scratch, "r%d.json" % idx)
    cmd = [PY_VT, os.path.join(VERIF, "engine", "worker.py"), os.path.join(VERIF, modrel), ob.name, tier, out]
    # per-obligation budget; the thorough tier is capped so that one registered command stays
    # within hours (VERIF_MAX_BUDGET, seconds; an obligation that hits it is UNKNOWN, never success)
    budget = ob.timeout
    if tier == "thorough":
        budget = min(budget, int(os.environ.get("VERIF_MAX_BUDGET", "900")))
    if canary is not None:
        cmd += ["--canary", str(canary)]
        budget = min(budget, 300)
    cmd += ["--timeout", str(budget)]
    env = dict(os.environ)
    env["PYTHONDONTWRITEBYTECODE"] = "1"
    env["PYTHONWARNINGS"] = "ignore"
    env["PRAATIO_ROOT"] = ROOT
    env.pop("CROSSHAIR_ONLY_FINITE_FLOATS", None)
    wall = budget * 2 + 180
    t0 = time.time()
    try:
        p = subprocess.run(cmd, env=env, cwd=VERIF, capture_output=True, text=True, timeout=wall)
        if os.path.exists(out):
            rec = json.load(open(out))
        else:
            rec = {"ob": ob.name, "verdict": "ERROR", "detail": "worker wrote nothing; rc=%s stderr=%s" % (p.returncode, p.stderr[-1500:])}
    except subprocess.TimeoutExpired:
        rec = {"ob": ob.name, "verdict": "UNKNOWN", "detail": "wall timeout %ds" % wall, "paths": 0, "cpu_s": 0}
    rec["wall_s"] = round(time.time() - t0, 2)
    rec["canary"] = canary
    return rec


def do_replay(path):
    env = dict(os.environ)
    env["PYTHONDONTWRITEBYTECODE"] = "1"
    env["PRAATIO_ROOT"] = ROOT
    env["PYTHONWARNINGS"] = "ignore"
    try:
        p = subprocess.run([PY_REPO, os.path.join(VERIF, "engine", "replay.py"), path], env=env, cwd=VERIF, capture_output=True, text=True, timeout=300)
        line = [l for l in p.stdout.strip().splitlines() if l.startswith("{")]
        if not line:
            return {"outcome": "error", "tag": (p.stderr or p.stdout)[-800:]}
        return json.loads(line[-1])
    except subprocess.TimeoutExpired:
        return {"outcome": "error", "tag": "replay timeout"}


def versions():
    out = []
    try:
        v = subprocess.run([PY_VT, "-c", "import crosshair, z3; print('crosshair-tool', crosshair.__version__, '; z3-solver', z3.get_version_string())"], capture_output=True, text=True, timeout=60).stdout.strip()
        out.append(v)
    except Exception:  # noqa
        pass
    return out


def main():
    argv = sys.argv[1:]
    if argv and argv[0] == "--replay":
        os.execv(PY_REPO, [PY_REPO, os.path.join(VERIF, "engine", "replay.py"), argv[1], "--human"])
    pid = argv[0]
    tier = os.environ.get("VERIF_TIER", "quick")
    only = None
    jobs = int(os.environ.get("VERIF_JOBS", "16"))
    canaries_on = os.environ.get("VERIF_CANARIES", "1") == "1"
    i = 1
    while i < len(argv):
        if argv[i] == "--tier":
            tier = argv[i + 1]; i += 2
        elif argv[i] == "--only":
            only = argv[i + 1]; i += 2
        elif argv[i] == "--jobs":
            jobs = int(argv[i + 1]); i += 2
        elif argv[i] == "--no-canary":
            canaries_on = False; i += 1
        else:
            raise SystemExit("bad argument " + argv[i])
    seed = int(os.environ.get("VERIF_SEED", "0"))
    t_start = time.time()
    modrel = os.path.join("harness", pid + ".py")
    try:
        mod = load_module(os.path.join(VERIF, modrel))
        obs = mod.obligations(tier)
    except Exception as e:  # noqa  (anchor missing, import error of a refactored module, ...)
        import traceback

        print("HARNESS-ERROR: property=%s cannot build the obligations from the current source: %s" % (pid, "".join(traceback.format_exception_only(type(e), e)).strip()[-600:]))
        sys.exit(3)
    if only:
        obs = [o for o in obs if only in o.name]
    names = [o.name for o in obs]
    assert len(names) == len(set(names)), "duplicate obligation names"
    kf_path = os.path.join(VERIF, "known_findings.json")
    known = {}
    if os.path.exists(kf_path):
        for f in json.load(open(kf_path)).get("findings", []):
            if f.get("status") == "known":
                known[f["id"]] = f
    scratch = tempfile.mkdtemp(prefix="verif_%s_" % pid)
    results = {}
    canary_results = []
    try:
        with cf.ThreadPoolExecutor(max_workers=jobs) as ex:
            futs = {}
            idx = 0
            # longest first
            for ob in sorted(obs, key=lambda o: -o.timeout):
                futs[ex.submit(run_worker, modrel, ob, tier, scratch, idx)] = (ob, None)
                idx += 1
            if canaries_on:
                for ob in obs:
                    for ci in range(len(ob.canaries)):
                        futs[ex.submit(run_worker, modrel, ob, tier, scratch, idx, ci)] = (ob, ci)
                        idx += 1
            for fut in cf.as_completed(futs):
                ob, ci = futs[fut]
                rec = fut.result()
                if ci is None:
                    results[ob.name] = rec
                    print("  [%s] %-44s %-9s paths=%-5s cpu=%ss" % (pid, ob.name, rec.get("verdict"), rec.get("paths", "-"), rec.get("cpu_s", "-")), flush=True)
                else:
                    canary_results.append((ob, ci, rec))
    finally:
        shutil.rmtree(scratch, ignore_errors=True)

    violations = []
    known_hit = []
    inconclusive = []
    harness_errors = []
    discharged = 0
    unknown = []
    not_encoded = []
    rep_dir = os.path.join(VERIF, "replays", pid)
    for ob in obs:
        rec = results[ob.name]
        v = rec.get("verdict")
        if v == "CONFIRMED":
            discharged += 1
        elif v == "REFUTED":
            if "cex" not in rec:
                harness_errors.append((ob.name, "refuted without concrete arguments: " + str(rec.get("message", ""))[:300]))
                continue
            os.makedirs(rep_dir, exist_ok=True)
            rpath = os.path.join(rep_dir, ob.name + ".json")
            json.dump({"property": pid, "module": modrel, "ob": ob.name, "tier": tier, "engine": rec.get("engine"), "bounds": ob.bounds, "cex": rec["cex"], "symbolic_message": rec.get("message", "")[:600]}, open(rpath, "w"), indent=1)
            rr = do_replay(rpath)
            rec["replay"] = rr
            if rr["outcome"] == "reproduced":
                kf = known.get(ob.known) if ob.known else None
                ok_known = False
                if kf is not None:
                    pats = kf.get("outcomes")
                    ok_known = (not pats) or any(p in (rr.get("tag") or "") for p in pats)
                if ok_known:
                    known_hit.append((ob.name, kf, rr))
                else:
                    violations.append((ob.name, rpath, rr))
            elif rr["outcome"] == "slice-broken":
                rec["verdict"] = "NOT-ENCODED"
                not_encoded.append((ob.name, "the statements sliced from the current source no longer stand on their own (%s)" % rr.get("tag")))
            elif rr["outcome"] in ("not-reproduced", "pre-false"):
                inconclusive.append((ob.name, "counterexample from the solver does not reproduce on the real code (%s)" % rr["outcome"]))
            else:
                harness_errors.append((ob.name, "replay failed: %s" % rr.get("tag")))
        elif v == "UNKNOWN":
            unknown.append(ob.name)
        elif v == "NOT-ENCODED":
            not_encoded.append((ob.name, str(rec.get("detail", ""))[-600:]))
        else:
            harness_errors.append((ob.name, "%s: %s" % (v, str(rec.get("detail", ""))[-600:])))

    killed = sum(1 for _, _, r in canary_results if r.get("verdict") == "REFUTED")
    canary_list = [
        {"obligation": ob.name, "mutation": "%s: %s -> %s" % (ob.canaries[ci]["target"], ob.canaries[ci]["find"], ob.canaries[ci]["replace"]), "result": r.get("verdict")}
        for ob, ci, r in canary_results
    ]

    by_kf = {}
    for name, kf, rr in known_hit:
        by_kf.setdefault(kf["id"], (kf, []))[1].append("%s: %s" % (name, rr.get("tag")))
    for kid, (kf, hits) in by_kf.items():
        print("KNOWN-FINDING: property=%s %s %s [%d obligation(s): %s]" % (pid, kid, kf.get("example", kf["text"])[:300], len(hits), "; ".join(hits)[:400]))
    for name, why in inconclusive:
        print("INCONCLUSIVE: property=%s obligation=%s %s" % (pid, name, why))
    for name in unknown:
        print("UNKNOWN: property=%s obligation=%s not decided within its budget (%s)" % (pid, name, results[name].get("detail", "")))
    for name, why in not_encoded:
        print("NOT-ENCODED: property=%s obligation=%s this part of the encoding could not be regenerated from the current source and decides nothing (%s)" % (pid, name, why))
    for c in canary_list:
        if c["result"] != "REFUTED":
            print("SENSITIVITY-WARNING: property=%s canary not killed (%s): %s" % (pid, c["result"], c["mutation"]))
    for name, why in harness_errors:
        print("HARNESS-ERROR: property=%s obligation=%s %s" % (pid, name, why))
    for name, rpath, rr in violations:
        print("VIOLATION property=%s replay=%s" % (pid, rpath))
        print("   obligation=%s outcome=%s" % (name, rr.get("tag")))

    total_paths = sum(int(r.get("paths") or 0) for r in results.values())
    total_queries = sum(int(r.get("queries") or 0) for r in results.values())
    cpu = sum(float(r.get("cpu_s") or 0) for r in results.values())
    nontrivial = sum(1 for r in results.values() if int(r.get("paths") or 0) >= 2 or int(r.get("queries") or 0) >= 1)
    samples = []
    for ob in obs[:6]:
        r = results[ob.name]
        samples.append({"obligation": ob.name, "engine": r.get("engine", ob.engine_label()), "bounds": ob.bounds, "symbolic_parameters": [n for n, _ in ob.params], "verdict": r.get("verdict"), "paths": r.get("paths"), "cpu_s": r.get("cpu_s")})
    funcs = sorted({f for ob in obs for f in ob.funcs})
    ev = {
        "property_id": pid,
        "tier": tier,
        "seed": seed,
        "level": "other",
        "wall_s": round(time.time() - t_start, 1),
        "violations": len(violations),
        "coverage": {
            "explanation": "Bounded symbolic execution of the real praatio functions (CrossHair + z3, floats forced to IEEE binary64 or exact reals; rounding kernels as QF_FP queries) against independent reference models. Each obligation = one harness x one concrete size/mode tuple; CONFIRMED means every feasible path within the stated bound was exhausted and the oracle comparison held on all of them. Nothing is claimed outside the bounds.",
            "obligations": len(obs),
            "discharged": discharged,
            "unknown": unknown,
            "refuted_and_replayed": [n for n, _, _ in violations],
            "known_findings_hit": [kf["id"] for _, kf, _ in known_hit],
            "inconclusive": [n for n, _ in inconclusive],
            "not_encoded": [{"obligation": n, "reason": w} for n, w in not_encoded],
            "harness_errors": [n for n, _ in harness_errors],
            "checker_cmd": "./check %s --tier %s" % (pid, tier),
            "trusted_base": ["CPython 3.11 (python3-vt) / 3.12 (/venv) semantics", "CrossHair symbolic models of builtins"] + versions() + ["shims: " + "; ".join(["float model", "math.isclose transcription", "str %% split", "negative slice fix", "format() of symbolic numbers"]), "oracles under /verif/oracle"],
            "evaluations": total_paths + total_queries,
            "paths_explored": total_paths,
            "smt_queries": total_queries,
            "solver_cpu_s": round(cpu, 1),
            "distinct_nontrivial": nontrivial,
            "rule": "one evaluation = one feasible execution path of the real code explored symbolically (its path condition discharged by z3) or one direct SMT query; an obligation is non-trivial when it has >= 2 feasible paths or >= 1 solver query",
            "samples": samples,
            "functions_encoded": funcs,
            "bounds": sorted({ob.bounds for ob in obs if ob.bounds}),
            "per_obligation": {n: {k: r.get(k) for k in ("verdict", "paths", "cpu_s", "engine", "detail", "queries") if r.get(k) is not None} for n, r in results.items()},
            "canaries": {"run": len(canary_list), "killed": killed, "list": canary_list},
            "exhaustive": False,
        },
        "assumptions": getattr(mod, "ASSUMPTIONS", []) + [
            "verdicts hold only within the bounds listed in coverage.bounds",
            "CH-real verdicts are about exact real arithmetic on finite inputs; IEEE rounding is covered only by CH-ieee obligations and KSMT queries",
        ],
    }
    # evidence/ describes runs against /repo itself; a run against another tree (PRAATIO_ROOT:
    # seeded changes, the pinned commit) and a partial run (--only) must not overwrite it
    ev_dir = os.path.join(VERIF, "evidence") if (os.path.realpath(ROOT) == "/repo" and not only) else os.path.join(VERIF, "out", "evidence_other")
    os.makedirs(ev_dir, exist_ok=True)
    json.dump(ev, open(os.path.join(ev_dir, pid + ".json"), "w"), indent=1)
    print("[%s] tier=%s obligations=%d discharged=%d unknown=%d known=%d violations=%d canaries=%d/%d wall=%.0fs" % (pid, tier, len(obs), discharged, len(unknown), len(known_hit), len(violations), killed, len(canary_list), time.time() - t_start))
    if violations:
        sys.exit(1)
    if harness_errors:
        sys.exit(3)
    if obs and len(not_encoded) == len(obs):
        print("HARNESS-ERROR: property=%s no part of the encoding could be regenerated from the current source" % pid)
        sys.exit(3)
    sys.exit(0)


if __name__ == "__main__":
    main()
