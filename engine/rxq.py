"""RX: regular-language queries in z3's sequence theory.

* re_to_z3(pattern)            - translate (a subset of) Python regex syntax via sre_parse
* capture_group(pattern, n)    - source text of the n-th capturing group of a pattern
* REPR_FLOAT / PCT_D / SPEC_NUMBER - token languages (contracts of repr(float), '%d', and
  the number grammar of Praat text files)
* included(lang, regex, ...)   - is every string of `lang` (up to maxlen) in `regex`?
"""
import time

try:
    import re._parser as sre_parse  # py3.11+
    import re._constants as sre_c
except ImportError:  # pragma: no cover
    import sre_parse
    import sre_constants as sre_c

import z3


class RxUnsupported(Exception):
    pass


def _cls(items):
    parts = []
    neg = False
    for op, av in items:
        if op is sre_c.NEGATE:
            neg = True
        elif op is sre_c.LITERAL:
            parts.append(z3.Re(chr(av)))
        elif op is sre_c.RANGE:
            parts.append(z3.Range(chr(av[0]), chr(av[1])))
        elif op is sre_c.CATEGORY:
            parts.append(_cat(av))
        else:
            raise RxUnsupported("class item %s" % op)
    if neg:
        raise RxUnsupported("negated class")
    return z3.Union(*parts) if len(parts) > 1 else parts[0]


def _cat(av):
    if av is sre_c.CATEGORY_DIGIT:
        return z3.Range("0", "9")
    if av is sre_c.CATEGORY_SPACE:
        return z3.Union(z3.Re(" "), z3.Re("\t"), z3.Re("\n"), z3.Re("\r"), z3.Re("\x0b"), z3.Re("\x0c"))
    raise RxUnsupported("category %s" % av)


def _seq(items):
    parts = [_node(op, av) for op, av in items]
    parts = [p for p in parts if p is not None]
    if not parts:
        return z3.Re("")
    return z3.Concat(*parts) if len(parts) > 1 else parts[0]


def _node(op, av):
    if op is sre_c.LITERAL:
        return z3.Re(chr(av))
    if op is sre_c.IN:
        return _cls(av)
    if op is sre_c.CATEGORY:
        return _cat(av)
    if op is sre_c.MAX_REPEAT or op is sre_c.MIN_REPEAT:
        lo, hi, sub = av
        r = _seq(sub)
        if lo == 0 and hi == 1:
            return z3.Option(r)
        if lo == 0 and hi is sre_c.MAXREPEAT:
            return z3.Star(r)
        if lo == 1 and hi is sre_c.MAXREPEAT:
            return z3.Plus(r)
        if hi is sre_c.MAXREPEAT:
            return z3.Concat(*([r] * lo + [z3.Star(r)]))
        return z3.Loop(r, lo, hi)
    if op is sre_c.SUBPATTERN:
        return _seq(av[3])
    if op is sre_c.BRANCH:
        return z3.Union(*[_seq(b) for b in av[1]])
    if op is sre_c.AT:
        return None  # anchors carry no characters
    if op is sre_c.ANY:
        raise RxUnsupported("'.' outside a class")
    raise RxUnsupported(str(op))


def re_to_z3(pattern):
    return _seq(sre_parse.parse(pattern))


def capture_group(pattern, n=1):
    """source text of the n-th capturing group (by parenthesis matching)"""
    depth = 0
    idx = 0
    i = 0
    start = None
    while i < len(pattern):
        c = pattern[i]
        if c == "\\":
            i += 2
            continue
        if c == "[":
            j = pattern.index("]", i + 1)
            i = j + 1
            continue
        if c == "(":
            capturing = not pattern.startswith("(?", i)
            if capturing:
                idx += 1
                if idx == n and start is None:
                    start = (i, depth)
            depth += 1
        elif c == ")":
            depth -= 1
            if start is not None and depth == start[1]:
                return pattern[start[0] + 1: i]
        i += 1
    raise RxUnsupported("no capturing group %d in %r" % (n, pattern))


D = z3.Range("0", "9")
D1 = z3.Plus(D)
NZ = z3.Range("1", "9")
# repr(float) for finite non-negative doubles (CPython float_repr_style 'short'):
#   fixed notation  ddd.ddd   (at least one digit on both sides)
#   or  d[.ddd]e[+-]dd[d]     (exponent at least two digits)
REPR_FLOAT = z3.Union(
    z3.Concat(z3.Union(z3.Re("0"), z3.Concat(NZ, z3.Star(D))), z3.Re("."), D1),
    z3.Concat(NZ, z3.Option(z3.Concat(z3.Re("."), D1)), z3.Re("e"), z3.Union(z3.Re("-"), z3.Re("+")), z3.Union(z3.Concat(D, D), z3.Concat(NZ, D, D))),
)
# '%d' % x for x >= 0
PCT_D = z3.Union(z3.Re("0"), z3.Concat(NZ, z3.Star(D)))
# numbers in Praat text files as produced by Praat/ELAN: decimal with optional fraction and
# optional exponent (either case, optional sign, any number of digits)
SPEC_NUMBER = z3.Concat(D1, z3.Option(z3.Concat(z3.Re("."), D1)), z3.Option(z3.Concat(z3.Union(z3.Re("e"), z3.Re("E")), z3.Option(z3.Union(z3.Re("-"), z3.Re("+"))), D1)))


def find_outside(lang, regex, maxlen=12, timeout_s=60, extra=None):
    """a string of `lang` (length <= maxlen) that is NOT in `regex`; returns
    ('none', None, secs) | ('witness', str, secs) | ('unknown', None, secs)"""
    s = z3.String("s")
    sol = z3.Solver()
    sol.set("timeout", int(timeout_s * 1000))
    sol.add(z3.InRe(s, lang), z3.Not(z3.InRe(s, regex)), z3.Length(s) <= maxlen)
    if extra is not None:
        sol.add(extra(s))
    t0 = time.time()
    r = str(sol.check())
    dt = time.time() - t0
    if r == "sat":
        return "witness", sol.model()[s].as_string(), dt
    if r == "unsat":
        return "none", None, dt
    return "unknown", None, dt


def find_with(lang, pred, maxlen=12, timeout_s=60):
    """a string of `lang` satisfying the z3 predicate builder pred(s)"""
    s = z3.String("s")
    sol = z3.Solver()
    sol.set("timeout", int(timeout_s * 1000))
    sol.add(z3.InRe(s, lang), pred(s), z3.Length(s) <= maxlen)
    t0 = time.time()
    r = str(sol.check())
    dt = time.time() - t0
    if r == "sat":
        return "witness", sol.model()[s].as_string(), dt
    if r == "unsat":
        return "none", None, dt
    return "unknown", None, dt
