"""Self-tests of the trusted shims and of the engine's refutation/replay path."""
import json
import math
import os
import random
import subprocess
import sys
import tempfile

HERE = os.path.dirname(os.path.abspath(__file__))
VERIF = os.path.dirname(HERE)
sys.path.insert(0, VERIF)
sys.path.insert(0, HERE)
import shims  # noqa

rnd = random.Random(12345)
n = 0
vals = [0.0, -0.0, 1.0, 1.0 + 1e-9, 1.0 - 1e-9, 1e-300, 1e300, float("inf"), -float("inf"), float("nan"), 5e-324]
pairs = [(a, b) for a in vals for b in vals]
for _ in range(10000):
    a = rnd.uniform(-1e3, 1e3)
    k = rnd.choice([0.0, 1e-9, 0.99e-9, 1.01e-9, 1e-12, 1e-6])
    pairs.append((a, a * (1 + k)))
    pairs.append((a, rnd.uniform(-1e3, 1e3)))
for a, b in pairs:
    for kw in ({}, {"abs_tol": 1e-14}):
        if shims._isclose(a, b, **kw) != math.isclose(a, b, **kw):
            print("SELFTEST FAIL isclose", a, b, kw)
            sys.exit(2)
        n += 1
print("isclose transcription agrees with math.isclose on %d pairs" % n)

scratch = tempfile.mkdtemp(prefix="verif_selftest_")
ok = True
try:
    sys.path.insert(0, VERIF)
    import importlib.util
    spec = importlib.util.spec_from_file_location("harness_SELFTEST", os.path.join(VERIF, "harness", "SELFTEST.py"))
    mod = importlib.util.module_from_spec(spec)
    spec.loader.exec_module(mod)
    procs = []
    for i, ob in enumerate(mod.obligations("quick")):
        out = os.path.join(scratch, "s%d.json" % i)
        p = subprocess.Popen([sys.executable, os.path.join(HERE, "worker.py"), os.path.join(VERIF, "harness", "SELFTEST.py"), ob.name, "quick", out], cwd=VERIF, stdout=subprocess.PIPE, stderr=subprocess.PIPE)
        procs.append((ob, out, p))
    for ob, out, p in procs:
        p.wait()
        rec = json.load(open(out)) if os.path.exists(out) else {"verdict": "ERROR", "detail": p.stderr.read().decode()[-500:]}
        want = "REFUTED" if ob.name.startswith("engine-refutes") else "CONFIRMED"
        good = rec.get("verdict") == want
        if good and want == "REFUTED":
            rp = os.path.join(scratch, "rep.json")
            json.dump({"property": "SELFTEST", "module": "harness/SELFTEST.py", "ob": ob.name, "tier": "quick", "cex": rec["cex"]}, open(rp, "w"))
            rr = subprocess.run(["/venv/bin/python", os.path.join(HERE, "replay.py"), rp], capture_output=True, text=True, cwd=VERIF)
            good = '"reproduced"' in rr.stdout
        print("%-32s %-10s paths=%s %s" % (ob.name, rec.get("verdict"), rec.get("paths"), "ok" if good else "FAIL " + str(rec.get("detail", rec.get("message", "")))[:300]))
        ok = ok and good
finally:
    import shutil
    shutil.rmtree(scratch, ignore_errors=True)
if not ok:
    print("SELFTEST FAILED")
    sys.exit(2)
print("selftest ok")
