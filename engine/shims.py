"""CrossHair shims (DESIGN.md section 2.2).  Imported only inside worker processes that
run under python3-vt (crosshair-tool 0.0.110).  `apply(float_mode)` installs all of
them; each shim is listed in every evidence file as part of the trusted base and is
self-tested by engine/selftest.py.
"""
import math
import os
import re as _re

SHIM_NAMES = [
    "float-model(ieee|real)",
    "math.isclose transcription",
    "str.__mod__ split-and-concat for %s/%d/%%",
    "negative slice bound normalisation",
    "format() of symbolic numbers -> '<sym>'",
]


def _isclose(a, b, *, rel_tol=1e-09, abs_tol=0.0):
    # CPython Modules/mathmodule.c: math_isclose_impl, transcribed line by line
    if rel_tol < 0.0 or abs_tol < 0.0:
        raise ValueError("tolerances must be non-negative")
    if a == b:
        return True
    if math.isinf(a) or math.isinf(b):
        return False
    diff = abs(b - a)
    return ((diff <= abs(rel_tol * b)) or (diff <= abs(rel_tol * a))) or (
        diff <= abs_tol
    )


def apply(float_mode):
    """float_mode: 'ieee' | 'real' | None (no symbolic floats expected)."""
    import crosshair.core_and_libs  # noqa: F401  (registers plugins)
    from crosshair import core as chcore
    from crosshair.libimpl import builtinslib as bl
    from crosshair.tracers import NoTracing
    from crosshair.core import CrossHairValue, realize as _realize

    if float_mode == "ieee":
        assert os.environ.get("CROSSHAIR_ONLY_FINITE_FLOATS") != "1"
        bl._PYTYPE_TO_WRAPPER_TYPE[float] = ((bl.PreciseIeeeSymbolicFloat, 1.0),)
    elif float_mode == "real":
        assert os.environ.get("CROSSHAIR_ONLY_FINITE_FLOATS") == "1"
        bl._PYTYPE_TO_WRAPPER_TYPE[float] = ((bl.RealBasedSymbolicFloat, 1.0),)
        from crosshair.statespace import StateSpace

        StateSpace.cap_result_at_unknown = lambda self: None

    # --- math.isclose ---------------------------------------------------------
    chcore._PATCH_REGISTRATIONS[math.isclose] = _isclose

    # --- str % args -------------------------------------------------------------
    _orig_pct = chcore._PATCH_REGISTRATIONS[str.__mod__]
    _SPEC = _re.compile(r"%(%|s|d)")

    def _pct(self, other):
        with NoTracing():
            simple = (
                type(self) is str
                and "%" in self
                and all(
                    m.group(0) in ("%s", "%d", "%%")
                    for m in _re.finditer(r"%.", self)
                )
            )
        if not simple:
            return _orig_pct(self, other)
        args = other if type(other) is tuple else (other,)
        with NoTracing():
            parts = _SPEC.split(self)  # lit, spec, lit, spec, ...
        out = parts[0]
        ai = 0
        for k in range(1, len(parts), 2):
            sp = parts[k]
            if sp == "%":
                out = out + "%"
            else:
                a = args[ai]
                ai += 1
                if sp == "d":
                    a = int(a)
                out = out + str(a)
            out = out + parts[k + 1]
        if ai != len(args):
            raise TypeError("not all arguments converted during string formatting")
        return out

    chcore._PATCH_REGISTRATIONS[str.__mod__] = _pct

    # --- negative slice bounds on symbolic str ----------------------------------
    _orig_gi = bl.LazyIntSymbolicStr.__getitem__

    def _gi_fix(self, i):
        if isinstance(i, slice) and (i.step is None or i.step == 1):
            st, sp = i.start, i.stop
            if (st is not None and st < 0) or (sp is not None and sp < 0):
                n = _realize(len(self))
                if st is not None and st < 0:
                    st = max(0, n + st)
                if sp is not None and sp < 0:
                    sp = max(0, n + sp)
                i = slice(st, sp, i.step)
        return _orig_gi(self, i)

    bl.LazyIntSymbolicStr.__getitem__ = _gi_fix

    # --- format() / f-strings of symbolic numbers --------------------------------
    _orig_format = chcore._PATCH_REGISTRATIONS[format]

    def _has_sym(o, depth=0):
        if isinstance(o, CrossHairValue):
            return True
        if depth < 4 and isinstance(o, (tuple, list)):
            return any(_has_sym(x, depth + 1) for x in o)
        return False

    def _format2(obj, format_spec=""):
        with NoTracing():
            is_str = isinstance(obj, (str, bl.AnySymbolicStr))
            sym = (not is_str) and _has_sym(obj)
        if sym:
            return "<sym>"
        return _orig_format(obj, format_spec)

    chcore._PATCH_REGISTRATIONS[format] = _format2
