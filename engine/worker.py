"""Run ONE obligation under CrossHair (python3-vt).  Usage:

    python3-vt engine/worker.py <harness module path> <obligation name> <tier> <out.json>
                                [--canary N] [--timeout S] [--no-twin]

Writes a JSON record: verdict CONFIRMED | REFUTED | UNKNOWN | VACUOUS | ERROR, paths,
cpu seconds, counterexample (concrete arguments) if any.
"""
import collections
import importlib.util
import inspect
import json
import os
import random
import sys
import textwrap
import time
import traceback

HERE = os.path.dirname(os.path.abspath(__file__))
sys.path.insert(0, os.path.dirname(HERE))
sys.path.insert(0, HERE)


def load_module(path):
    name = "harness_" + os.path.splitext(os.path.basename(path))[0]
    spec = importlib.util.spec_from_file_location(name, path)
    mod = importlib.util.module_from_spec(spec)
    sys.modules[name] = mod
    spec.loader.exec_module(mod)
    return mod


def find_ob(mod, tier, name):
    for ob in mod.obligations(tier):
        if ob.name == name:
            return ob
    raise SystemExit("no such obligation: " + name)


def enc(v):
    if isinstance(v, bool):
        return {"t": "bool", "v": v}
    if isinstance(v, int):
        return {"t": "int", "v": v}
    if isinstance(v, float):
        return {"t": "float", "v": v.hex() if v == v else "nan", "repr": repr(v)}
    if isinstance(v, str):
        return {"t": "str", "v": v}
    raise TypeError(type(v))


def dec(d):
    if d["t"] == "float":
        return float("nan") if d["v"] == "nan" else float.fromhex(d["v"])
    return d["v"]


def apply_canary(c):
    """c = {'target': 'pkg.mod:Qual.name', 'find': str, 'replace': str}: re-executes the
    patched source of ONE function into its module namespace (never touches /repo)."""
    modname, qual = c["target"].split(":")
    mod = importlib.import_module(modname)
    parts = qual.split(".")
    holder = mod
    for p in parts[:-1]:
        holder = getattr(holder, p)
    fn = inspect.getattr_static(holder, parts[-1])
    raw = fn
    wrap = None
    if isinstance(fn, (staticmethod, classmethod)):
        wrap = type(fn)
        raw = fn.__func__
    if isinstance(fn, property):
        wrap = property
        raw = fn.fget
    src = textwrap.dedent(inspect.getsource(raw))
    if src.count(c["find"]) < 1:
        return False
    src2 = src.replace(c["find"], c["replace"], 1)
    lines = src2.split("\n")
    # drop decorators
    while lines and lines[0].lstrip().startswith("@"):
        lines.pop(0)
    ns = {}
    exec(compile("\n".join(lines), "<canary %s>" % c["target"], "exec"), mod.__dict__, ns)
    newfn = ns[raw.__name__]
    if wrap is not None:
        newfn = wrap(newfn)
    setattr(holder, parts[-1], newfn)
    return True


def run(ob, post_false, timeout, stats):
    from crosshair.condition_parser import (
        Conditions,
        ConditionExpr,
        POSTCONDITION,
        PRECONDITION,
    )
    from crosshair.core import ConditionCheckable, DEFAULT_OPTIONS
    from crosshair.fnutil import FunctionInfo
    from crosshair.options import AnalysisOptionSet

    names = [n for n, _ in ob.params]
    sig = inspect.Signature(
        [
            inspect.Parameter(n, inspect.Parameter.POSITIONAL_OR_KEYWORD, annotation=t)
            for n, t in ob.params
        ],
        return_annotation=object,
    )
    body = ob.body

    def harness_fn(*a):
        return body(*a)

    harness_fn.__name__ = "ob_" + ob.name.replace("-", "_").replace(".", "_")
    captured = {}

    def describe(args, return_val, repr_overrides):
        captured["args"] = {k: args.arguments[k] for k in names}
        captured["ret"] = return_val
        return (harness_fn.__name__ + "(...)", repr(return_val))

    pres = []
    if ob.pre is not None:
        pre = ob.pre
        pres.append(
            ConditionExpr(
                PRECONDITION,
                lambda v: pre(*[v[n] for n in names]),
                "<harness>",
                1,
                "pre",
            )
        )
    if post_false:
        post = ConditionExpr(POSTCONDITION, lambda v: False, "<harness>", 1, "False")
    else:
        post = ConditionExpr(
            POSTCONDITION, lambda v: v["__return__"] is True, "<harness>", 1, "_ is True"
        )
    conds = Conditions(
        harness_fn,
        harness_fn,
        pres,
        [post],
        frozenset(),
        sig,
        None,
        [],
        counterexample_description_maker=describe,
    )
    opts = DEFAULT_OPTIONS.overlay(
        AnalysisOptionSet(
            per_condition_timeout=timeout,
            per_path_timeout=timeout,
            report_all=True,
            stats=stats,
        )
    )
    ctxfn = FunctionInfo.from_fn(harness_fn)
    t0 = time.process_time()
    msgs = list(ConditionCheckable(ctxfn, opts, conds).analyze())
    cpu = time.process_time() - t0
    return msgs, captured, cpu


def main():
    argv = sys.argv[1:]
    modpath, obname, tier, out = argv[:4]
    rest = argv[4:]
    canary = None
    timeout = None
    twin = True
    i = 0
    while i < len(rest):
        if rest[i] == "--canary":
            canary = int(rest[i + 1])
            i += 2
        elif rest[i] == "--timeout":
            timeout = float(rest[i + 1])
            i += 2
        elif rest[i] == "--no-twin":
            twin = False
            i += 1
        else:
            raise SystemExit("bad arg " + rest[i])
    seed = int(os.environ.get("VERIF_SEED", "0"))
    random.seed(seed)
    rec = {"ob": obname, "tier": tier, "canary": canary, "seed": seed}
    t_wall = time.time()
    try:
        mod = load_module(modpath)
        ob = find_ob(mod, tier, obname)
        if ob.fmode == "real":
            os.environ["CROSSHAIR_ONLY_FINITE_FLOATS"] = "1"
        else:
            os.environ.pop("CROSSHAIR_ONLY_FINITE_FLOATS", None)
        import warnings

        warnings.simplefilter("ignore")
        import shims

        shims.apply(ob.fmode)
        if timeout is None:
            timeout = ob.timeout
        if canary is not None:
            c = ob.canaries[canary]
            rec["canary_spec"] = c
            if not apply_canary(c):
                rec["verdict"] = "CANARY_NOT_APPLICABLE"
                json.dump(rec, open(out, "w"))
                return
        rec["engine"] = ob.engine_label()
        if ob.kind == "smt":
            t0 = time.process_time()
            r = ob.smt()
            rec.update(r)
            rec.setdefault("cpu_s", round(time.process_time() - t0, 2))
            rec.setdefault("paths", 0)
            if "cex_args" in r:
                rec["cex"] = {k: enc(v) for k, v in r.pop("cex_args").items()}
                rec.pop("cex_args", None)
            rec["wall_s"] = round(time.time() - t_wall, 2)
            json.dump(rec, open(out, "w"))
            return
        teardown = ob.setup() if ob.setup else None
        stats = collections.Counter()
        if twin and canary is None:
            msgs, cap, cpu = run(ob, True, min(timeout, 120.0), collections.Counter())
            states = [m.state.name for m in msgs]
            rec["twin"] = {"states": states, "cpu_s": round(cpu, 2)}
            if "POST_FAIL" not in states and "EXEC_ERR" not in states:
                rec["verdict"] = "VACUOUS" if "CONFIRMED" in states or "PRE_UNSAT" in states else "UNKNOWN"
                rec["detail"] = "reachability twin not refuted: %s" % states
                rec["cpu_s"] = round(cpu, 2)
                rec["paths"] = 0
                rec["wall_s"] = round(time.time() - t_wall, 2)
                json.dump(rec, open(out, "w"))
                return
        msgs, cap, cpu = run(ob, False, timeout, stats)
        rec["cpu_s"] = round(cpu, 2)
        rec["paths"] = int(stats.get("num_paths", 0))
        rec["stats"] = {k: int(v) for k, v in stats.items() if isinstance(v, (int, float))}
        states = [m.state.name for m in msgs]
        rec["states"] = states
        if any(s in ("POST_FAIL", "EXEC_ERR", "POST_ERR") for s in states):
            rec["verdict"] = "REFUTED"
            m = [m for m in msgs if m.state.name in ("POST_FAIL", "EXEC_ERR", "POST_ERR")][0]
            rec["message"] = m.message[:1500]
            rec["refute_kind"] = m.state.name
            if "args" in cap:
                try:
                    rec["cex"] = {k: enc(v) for k, v in cap["args"].items()}
                    r = cap.get("ret")
                    rec["cex_ret"] = r if isinstance(r, (str, bool, type(None))) else repr(r)
                except Exception as e:  # noqa
                    rec["cex_error"] = repr(e)
        elif states == ["CONFIRMED"]:
            rec["verdict"] = "CONFIRMED"
        elif "PRE_UNSAT" in states:
            rec["verdict"] = "VACUOUS"
            rec["detail"] = "precondition unsatisfiable / every path aborted"
        else:
            rec["verdict"] = "UNKNOWN"
            rec["detail"] = ";".join(states)
        if teardown:
            teardown()
    except BaseException as e:  # noqa
        tb = traceback.extract_tb(e.__traceback__)
        if isinstance(e, (NameError, UnboundLocalError)) and tb and tb[-1].filename.startswith("<"):
            # statements sliced from the current AST no longer stand on their own
            rec["verdict"] = "NOT-ENCODED"
            rec["detail"] = "slice broken: %s in %s: %s" % (type(e).__name__, tb[-1].filename, str(e)[:200])
        elif type(e).__name__ == "CrossHairInternal":
            # a failure inside the symbolic executor itself: nothing was decided
            rec["verdict"] = "UNKNOWN"
            rec["detail"] = "CrossHair internal error: %s" % str(e)[:300]
        elif (isinstance(e, AssertionError) and str(e).startswith("anchor missing")) or type(e).__name__ in ("AnchorMissing", "RxUnsupported"):
            rec["verdict"] = "NOT-ENCODED"
            rec["detail"] = str(e)[:400]
        else:
            rec["verdict"] = "ERROR"
            rec["detail"] = "".join(traceback.format_exception(type(e), e, e.__traceback__))[-3000:]
    rec["wall_s"] = round(time.time() - t_wall, 2)
    json.dump(rec, open(out, "w"))


if __name__ == "__main__":
    main()
