"""C01 - TextGrid save/open round trip preserves every tier, time and label."""
from engine.hlib import *  # noqa
from harness import ioshared as IO
from harness import numtok

from praatio import textgrid as tgapi
from praatio.data_classes.interval_tier import IntervalTier
from praatio.data_classes.point_tier import PointTier
from praatio.data_classes.textgrid import Textgrid, _tgToDictionary
from praatio.utilities import textgrid_io, errors
from praatio.utilities.constants import Interval, Point

FUNCS = [
    "praatio.utilities.textgrid_io._tgToShortTextForm -> _parseShortTextgrid/_fetchRow/_fetchTextRow",
    "praatio.utilities.textgrid_io._tgToLongTextForm -> element/tier-name kernels sliced from _parseNormalTextgrid",
    "praatio.utilities.textgrid_io._upconvertDictionaryFromJson/_downconvertDictionaryForJson",
    "praatio.data_classes.textgrid._tgToDictionary / praatio.textgrid._dictionaryToTg",
    "praatio.utilities.textgrid_io.parseTextgridStr (format sniffing)",
    "Textgrid.save / textgrid.openTextgrid",
]
ASSUMPTIONS = [
    "labels/names over the alphabet {\", a, space, newline, =, 1, ], e-acute}, trimmed, no carriage return, <= 2 chars (quick) / 3 (thorough); timestamps concrete in the string obligations (number tokens are decided by the num-* obligations: KSMT-fp for numToStr, RX for the reader patterns)",
    "long format: the reader is driven at element granularity (kernels sliced from the current AST of _parseNormalTextgrid) on the text the real writer produced; the whole-file regex split is exercised concretely",
    "json.dumps/json.loads are the json library's (C-level); the dict conversions around them are decided",
]


def _pre_label(maxlen):
    def pre(s):
        return in_alphabet(s, IO.ALPHA, maxlen) and s == s.strip()

    return pre


def ob_short(which, maxlen, timeout):
    def pre(s):
        ok = in_alphabet(s, IO.ALPHA, maxlen) and s == s.strip()
        if which == "name":
            ok = ok and "\n" not in s and len(s) >= 1
        return ok

    def body(s):
        only = "point" if which == "point" else "interval"
        d = IO.mk_dict(lab_i=s if which == "interval" else "x", lab_p=s if which == "point" else "y", name=s if which == "name" else "w", only=only)
        text = textgrid_io.getTextgridAsStr(d, "short_textgrid", False, None, None, None)
        back = textgrid_io._parseShortTextgrid(text)
        if len(back["tiers"]) != 1:
            return "tier count"
        t = back["tiers"][0]
        if t["class"] != ("TextTier" if which == "point" else "IntervalTier"):
            return "tier class"
        if t["name"] != (s if which == "name" else "w"):
            return "tier name not recovered"
        if len(t["entries"]) != 1:
            return "entry count"
        e = t["entries"][0]
        want = s if which in ("interval", "point") else "x"
        if e[-1] != want:
            return "label not recovered character for character"
        nums = [float(x) for x in e[:-1]]
        if nums != ([0.75] if which == "point" else [0.25, 0.5]):
            return "timestamps"
        if (back["xmin"], back["xmax"], t["xmin"], t["xmax"]) != (0.0, 1.0, 0.0, 1.0):
            return "spans"
        return True

    return Ob("short-roundtrip-%s-len%d" % (which, maxlen), S("s"), body, pre, timeout=timeout, funcs=FUNCS[:1], bounds="symbolic %s <= %d chars; real short writer -> real short reader (whole functions)" % (which, maxlen),
              canaries=[{"target": "praatio.utilities.textgrid_io:_fetchTextRow", "find": "if (quoteEndIndex - quoteStartIndex) % 2 != 0:", "replace": "if (quoteEndIndex - quoteStartIndex) % 2 != 0 or True:"}] if which == "interval" else [])


def ob_long(which, maxlen, timeout):
    """element granularity: the real long writer's rendering of ONE entry / ONE tier header
    (loop bodies sliced from _tgToLongTextForm) is read back by the real long reader's
    handling of one element / one header (loop bodies sliced from _parseNormalTextgrid)"""
    rik, rpk, rnk = IO.long_reader_kernels()
    whk, wik, wpk = IO.long_writer_kernels()
    lk_i, lk_p = IO.long_reader_kernels.label_kernels
    from praatio.utilities import my_math

    from harness import C02

    fk = {}
    for src, fn in C02.writer_kernels("long_textgrid"):
        key = "name" if "name" in src.split("%")[0] else ("interval" if "text" in src.split("%")[0] else "point")
        fk[key] = fn
    if set(fk) != {"name", "interval", "point"}:
        raise AssertionError("anchor missing: name/text/mark field expressions in _tgToLongTextForm")
    # concrete: the text before the field line contains no match for the field's pattern,
    # so the reader's (leftmost) match starts in the field line
    hdr = whk(0, {"class": "IntervalTier", "name": "MARK", "xmin": 0.0, "xmax": 1.0, "entries": ()})
    pre_i = wik(0, Interval(0.25, 0.5, "MARK")).split("intervals [")[1]
    pre_p = wpk(0, Point(0.75, "MARK")).split("points [")[1]
    for kern, text, row in ((rnk, hdr, fk["name"]("MARK")), (lk_i, pre_i, fk["interval"]("MARK")), (lk_p, pre_p, fk["point"]("MARK"))):
        if not text.endswith(row) and row not in text:
            raise AssertionError("field line is not part of the element text")
        before = text[: text.index(row)]
        try:
            kern(before)
            raise AssertionError("text before the field line already matches the field pattern")
        except errors.ParsingError:
            pass

    def pre(s):
        ok = in_alphabet(s, IO.ALPHA, maxlen) and s == s.strip()
        if which == "name":
            ok = ok and "\n" not in s and len(s) >= 1
        return ok

    def body(s):
        row = fk[which](s)
        got = {"name": rnk, "interval": lk_i, "point": lk_p}[which](row)
        return True if got == s else "field not recovered character for character"

    return Ob("long-element-%s-len%d" % (which, maxlen), S("s"), body, pre, timeout=timeout, funcs=FUNCS[1:2], bounds="symbolic %s <= %d chars; long-writer field expression -> long-reader statements computing the field (both sliced from the current AST)" % (which, maxlen),
              canaries=[{"target": "praatio.utilities.utils:escapeQuotes", "find": "text.replace('\"', '\"\"')", "replace": "text"}] if which == "point" else [])


def ob_long_elements_concrete():
    """concrete cross-check: the full element kernels (numbers + label) of the long reader on
    elements rendered by the long writer's loop bodies"""
    from praatio.utilities import my_math

    LABS = ["MARK", 'q"', 'say "hi"', '""', "two\nlines", ""]

    def check(i):
        rik, rpk, rnk = IO.long_reader_kernels()
        whk, wik, wpk = IO.long_writer_kernels()
        lab0 = LABS[i]
        e = rik(wik(0, Interval(0.25, 0.5, lab0)).split("intervals [")[1])
        if [tuple(x) for x in e] != [(my_math.numToStr(0.25), my_math.numToStr(0.5), lab0)]:
            return "interval element read back as %r" % (e,)
        e = rpk(wpk(0, Point(0.75, lab0)).split("points [")[1])
        if [tuple(x) for x in e] != [(my_math.numToStr(0.75), lab0)]:
            return "point element read back as %r" % (e,)
        return True

    def run():
        for i in range(len(LABS)):
            r = check(i)
            if r is not True:
                return {"verdict": "REFUTED", "queries": i + 1, "cex_args": {"i": i}, "message": r, "refute_kind": "CONCRETE"}
        return {"verdict": "CONFIRMED", "queries": len(LABS), "detail": "concrete cross-check"}

    return Ob("long-elements-concrete", I("i"), check, kind="smt", smt=run, timeout=60, funcs=FUNCS[1:2], bounds="concrete cross-check: labels %r through writer/reader element slices" % LABS)


def ob_short_field(idx, maxlen, timeout):
    """the real short writer's field rendering (sliced expression) is read back by the real
    _fetchTextRow, whatever follows on the next line"""
    from harness import C02

    src, fn = C02.writer_kernels("short_textgrid")[idx]
    CONT = ["", "0.5\n", '"x"\n', '"IntervalTier"\n']

    def pre(s, c):
        return in_alphabet(s, IO.ALPHA, maxlen) and s == s.strip() and 0 <= c < len(CONT)

    def body(s, c):
        row = fn(s)
        if not row.endswith("\n"):
            row = row + "\n"
        word, nxt = textgrid_io._fetchTextRow(row + CONT[c], 0)
        if word != s:
            return "field not recovered character for character"
        if nxt != len(row):
            return "reader does not continue at the next row"
        return True

    return Ob("short-field-%d-len%d" % (idx, maxlen), S("s") + I("c"), body, pre, timeout=timeout, funcs=FUNCS[:1], bounds="writer expression `%s` -> _fetchTextRow, field <= %d chars, 4 continuations" % (src, maxlen))


def ob_short_numrow(timeout):
    """_fetchRow returns the number token of a row intact"""

    def pre(t):
        return in_alphabet(t, "0123456789.e-+", 6) and len(t) >= 1

    def body(t):
        word, nxt = textgrid_io._fetchRow(t + "\n" + "0.5\n", 0)
        return True if (word == t and nxt == len(t) + 1) else "number row not returned intact"

    return Ob("short-number-row", S("t"), body, pre, timeout=timeout, funcs=["praatio.utilities.textgrid_io._fetchRow"], bounds="row text <= 6 chars over digits . e - +")


def ob_fixed_point(maxlen, timeout):
    def body(s):
        d = IO.mk_dict(lab_i=s, only="interval")
        t1 = textgrid_io.getTextgridAsStr(d, "short_textgrid", False, None, None, None)
        back = textgrid_io._parseShortTextgrid(t1)
        for t in back["tiers"]:
            t["entries"] = [Interval(float(e[0]), float(e[1]), e[2]) for e in t["entries"]]
        t2 = textgrid_io.getTextgridAsStr(back, "short_textgrid", False, None, None, None)
        return True if t1 == t2 else "written form is not a fixed point"

    return Ob("short-fixed-point-len%d" % maxlen, S("s"), body, _pre_label(maxlen), timeout=timeout, funcs=FUNCS[:1], bounds="symbolic interval label <= %d chars: write(parse(write(d))) == write(d)" % maxlen)


def ob_json_updown(ntiers, timeout):
    names = ["lo", "hi"] + [n for i in range(ntiers) for n in ("a%d" % i, "b%d" % i)]

    def pre(lo, hi, *ts):
        ok = (0.0 <= lo) & (lo <= hi) & (hi <= 1e6)
        for i in range(ntiers):
            ok = ok & (lo <= ts[2 * i]) & (ts[2 * i] < ts[2 * i + 1]) & (ts[2 * i + 1] <= hi)
        return ok

    def body(lo, hi, *ts):
        tiers = []
        for i in range(ntiers):
            cls = "IntervalTier" if i % 2 == 0 else "TextTier"
            ents = [[ts[2 * i], ts[2 * i + 1], "x"]] if cls == "IntervalTier" else [[ts[2 * i], "q"]]
            tiers.append({"class": cls, "name": "n%d" % i, "xmin": lo, "xmax": hi, "entries": ents})
        d = {"xmin": lo, "xmax": hi, "tiers": tiers}
        down = textgrid_io._downconvertDictionaryForJson(d)
        up = textgrid_io._upconvertDictionaryFromJson(down)
        return True if up == d else "json down/up conversion changes the textgrid"

    return Ob("json-updown-%dtiers" % ntiers, F(*names), body, pre, fmode="real", timeout=timeout, funcs=FUNCS[2:3], bounds="%d tiers sharing the textgrid span (the documented single-span exemption), symbolic times" % ntiers)


def ob_dict_object(k, timeout):
    names = ["hi"] + [n for i in range(k) for n in ("s%d" % i, "e%d" % i)] + ["p0"]

    def pre(hi, *ts):
        return ivs_wf_pre(0.0, hi, *ts[:-1]) & within(0.0, hi, ts[-1]) & (hi <= 1024.0)

    def body(hi, *ts):
        tg = Textgrid(0.0, hi)
        tg.addTier(IntervalTier("i", mk_ivs(ts[:-1]), 0.0, hi))
        tg.addTier(PointTier("p", [Point(ts[-1], "q")], 0.0, hi))
        back = tgapi._dictionaryToTg(_tgToDictionary(tg), "silence")
        if snap_tg(back) != snap_tg(tg):
            return "dict <-> object conversion changes the textgrid"
        return True if back == tg else "not equal"

    return Ob("dict-object-k%d" % k, F(*names), body, pre, fmode="real", timeout=timeout, funcs=FUNCS[3:4], bounds="interval tier k=%d + point tier k=1" % k)


SHAPES = [0.0, 1.0, 0.5, 5e-05, 1e-17, 123456.789, 1e15, 0.1 + 0.2, 2.9999999999999996, 3.0000000000000004, 1 / 3.0, 7.25, 2e-08]


def ob_files_concrete():
    """concrete cross-check through real files: every number shape x 4 formats x
    includeBlankSpaces x includeEmptyIntervals, incl. the re-save fixed point"""
    import os
    import shutil
    import tempfile

    def check(i, f, b, e):
        for int_bounds in (False, True):  # Textgrid(0, 5): bounds given as ints
            r = check1(i, f, b, e, int_bounds)
            if r is not True:
                return r + (" (textgrid bounds given as ints)" if int_bounds else "")
        return True

    def check1(i, f, b, e, int_bounds):
        x = SHAPES[i]
        fmt = IO.FORMATS[f]
        lo, hi = 0.0, max(4.0, x * 2 + 1)
        if int_bounds:
            lo, hi = 0, int(hi) + 1
        tg = Textgrid(lo, hi)
        a = x
        bnd = x + 1.0 if x + 1.0 > x else x * 2
        tg.addTier(IntervalTier("i", [Interval(a, bnd, 'say "hi"\nthere = 1')], lo, hi))
        tg.addTier(PointTier("p", [Point(x, 'q""')], x, hi))  # a tier that starts a hair after its textgrid
        tg.addTier(IntervalTier("none", [], lo, hi))
        # sliver absorption is C04's subject: keep the default threshold unless the data has
        # an interval or gap shorter than it
        kw = {"minimumIntervalLength": None} if (0 < x < 1e-8) else {}
        d = tempfile.mkdtemp(prefix="verif_c01_")
        try:
            fn = os.path.join(d, "a.TextGrid")
            tg.save(fn, fmt, bool(b), reportingMode="silence", **kw)
            r = tgapi.openTextgrid(fn, bool(e), reportingMode="silence")
            if list(r.tierNames) != ["i", "p", "none"]:
                return "tier names/order"
            for t, u in zip(tg.tiers, r.tiers):
                if type(t) is not type(u):
                    return "tier type"
                if fmt != "json":  # plain json keeps one span for the whole textgrid by design
                    for p, q in ((u.minTimestamp, t.minTimestamp), (u.maxTimestamp, t.maxTimestamp)):
                        if p != q and not (p == int(p) and abs(p - q) <= 1e-14 * max(abs(p), abs(q))):
                            return "tier span bound %r came back as %r" % (q, p)
                have = [tuple(z) for z in u.entries if z[-1] != ""]
                want = [tuple(z) for z in t.entries]
                if len(have) != len(want):
                    return "entry count"
                for h, w in zip(have, want):
                    if h[-1] != w[-1]:
                        return "label"
                    for p, q in zip(h[:-1], w[:-1]):
                        if p != q and not (p == int(p) and abs(p - q) <= 1e-14 * max(abs(p), abs(q))):
                            return "timestamp %r came back as %r" % (q, p)
            if bool(e):
                fn2 = os.path.join(d, "b.TextGrid")
                r.save(fn2, fmt, bool(b), reportingMode="silence", **kw)
                if open(fn, encoding="utf-8").read() != open(fn2, encoding="utf-8").read():
                    return "re-saving the reopened textgrid does not reproduce the file"
            return True
        finally:
            shutil.rmtree(d, ignore_errors=True)

    def run():
        n = 0
        for i in range(len(SHAPES)):
            for f in range(4):
                for b in (0, 1):
                    for e in (0, 1):
                        n += 1
                        try:
                            r = check(i, f, b, e)
                        except Exception as ex:  # noqa
                            r = "exception " + type(ex).__name__ + ": " + str(ex)[:80]
                        if r is not True:
                            return {"verdict": "REFUTED", "queries": n, "cex_args": {"i": i, "f": f, "b": b, "e": e}, "message": str(r), "refute_kind": "CONCRETE"}
        return {"verdict": "CONFIRMED", "queries": n, "detail": "concrete cross-check: %d save/open/save round trips through real files" % n}

    return Ob("files-roundtrip-concrete", I("i", "f", "b", "e"), check, kind="smt", smt=run, timeout=300, funcs=FUNCS[5:6] + FUNCS[4:5], bounds="concrete cross-check: number shapes %r x 4 formats x 2 x 2 flags" % SHAPES)


def obligations(tier):
    obs = []
    from harness import C02, C04

    try:
        nshort = len(C02.writer_kernels("short_textgrid"))
    except AssertionError:
        nshort = 0
    if tier == "quick":
        ml, T = 3, 600
        for w in ("interval", "point", "name"):
            guard(obs, "long-" + w, lambda: ob_long(w, ml, T), FUNCS[:2])
        for i in range(nshort):
            guard(obs, "short-field-%d" % i, lambda: ob_short_field(i, ml, T), FUNCS[:2])
        if nshort == 0:
            obs.append(not_encoded("short-fields", "anchor missing: field-rendering expressions of the short writer", FUNCS[:2]))
        obs.append(ob_short_numrow(300))
        obs.append(ob_json_updown(2, 120))
        obs.append(ob_dict_object(2, 200))
        obs.append(C04.ob_spans(2, 200))
        obs.append(C04.ob_spans(1, 300, blanks=True))
    else:
        obs.append(C04.ob_spans(3, 900))
        for w in ("interval", "point", "name"):
            guard(obs, "long-" + w, lambda: ob_long(w, 3, 3400), FUNCS[:2])
            guard(obs, "short-" + w, lambda: ob_short(w, 2, 3400), FUNCS[:2])
        for i in range(nshort):
            guard(obs, "short-field-%d" % i, lambda: ob_short_field(i, 4, 3000), FUNCS[:2])
        obs.append(ob_short_numrow(1200))
        guard(obs, "fixed-point", lambda: ob_fixed_point(2, 3400), FUNCS[:2])
        for n in (0, 1, 2, 3):
            obs.append(ob_json_updown(n, 600))
        for k in (0, 1, 2, 3):
            obs.append(ob_dict_object(k, 900))
    obs.append(numtok.ob_numtostr())
    obs.append(numtok.ob_contract())
    guard(obs, "num-regex-writer", lambda: numtok.obs_regex("writer"), numtok.FN[1:2])
    guard(obs, "num-strtoint-writer", lambda: numtok.ob_strtoint("writer"), numtok.FN[2:3])
    obs.append(numtok.ob_strtoint_concrete())
    obs.append(ob_files_concrete())
    guard(obs, "long-elements-concrete", lambda: ob_long_elements_concrete(), FUNCS[:2])
    obs.append(IO.ob_keywords_pass("C01"))
    obs += IO.obs_keywords_kf()
    return obs
