"""C02 - written TextGrid files are well-formed and all four formats say the same.

Decomposition (symbolically scanning a whole file costs ~10 s per path, see DESIGN 7):
  U  uniformity: for EVERY label/name L the real writer's text equals P + q(L) + S where q
     is the specification's quoting rule (oracle) and P, S are the concrete texts around
     the field.  Decided (CH-str) on the writer's own field-rendering expressions, sliced
     from the current AST of _tgToShortTextForm/_tgToLongTextForm (every `"...%s..." %
     escapeQuotes(X)`), for all L; that the rest of the text does not depend on the field
     is cross-checked concretely with two markers (M), and for the short format also
     decided symbolically on the whole text in the thorough tier (comparing a 700-character
     symbolic text costs ~30 s per path, which rules this out for the long format).
  L  string-token lemma (CH-str): for every L and every following character c != '"',
     the specification reader's string scanner started at the opening quote of q(L)+c
     returns exactly L and stops just after the closing quote - a string token is
     self-delimiting, so what is decoded before and after it does not depend on L.
  K  concrete decode (cross-check, not a solver verdict): P ends between two values, and
     the independent reader decodes P + q(marker) + S (and keyword-looking labels/names)
     to exactly the in-memory names, classes, spans, times, labels, with every declared size
     equal to the number of items that follow and, with blank filling, a gap-free partition.
U + L + K together give: for all L the independent reader recovers the in-memory content.
"""
from engine.hlib import *  # noqa
from oracle import spec_io

from praatio.utilities import textgrid_io, errors
from praatio.utilities.constants import Interval, Point

FUNCS = [
    "praatio.utilities.textgrid_io.getTextgridAsStr",
    "praatio.utilities.textgrid_io._tgToShortTextForm",
    "praatio.utilities.textgrid_io._tgToLongTextForm",
    "praatio.utilities.textgrid_io._downconvertDictionaryForJson/_tgToJson",
    "praatio.utilities.textgrid_io._fillInBlanks/_prepTgForSaving",
    "praatio.utilities.utils.escapeQuotes",
    "praatio.utilities.my_math.numToStr",
]
ALPHA = '"a \n=1]é'
ASSUMPTIONS = [
    "labels/names range over the alphabet {\", a, space, newline, =, 1, ], e-acute} (one representative per character class the format distinguishes), length <= 3 (quick) / 4 (thorough); timestamps are concrete (every number shape the writer can emit) because repr() is C-level - number TOKENS are decided by the RX/KSMT obligations of C01",
    "the independent reader is oracle/spec_io.py (validated by setup.sh against all 23 TextGrid fixtures of the repository)",
    "the step from U, L and K to 'the reader recovers the content for all L' is the composition argument in the module docstring (a left-to-right scanner's state after a self-delimiting token does not depend on the token)",
    "JSON: json.dumps is replaced by the identity, the obligation decides the object handed to it against the README schemas; JSON text syntax is the json library's",
]
TIMES = [(0.0, 1.0, 0.25, 0.5, 0.75), (5e-05, 123456.789, 0.5, 1.0, 2.0), (0.0, 1e16, 1.0, 2.9999999999999996, 7.0)]
MARK = "MARKER"


def _tg(times, name, lab_i, lab_p):
    """the dictionary Textgrid.save hands to getTextgridAsStr, built by the real
    _tgToDictionary from real tier objects"""
    from praatio.data_classes.interval_tier import IntervalTier
    from praatio.data_classes.point_tier import PointTier
    from praatio.data_classes.textgrid import Textgrid, _tgToDictionary

    lo, hi, a, b, p = times
    tg = Textgrid(lo, hi)
    tg.addTier(IntervalTier(name, [Interval(a, b, lab_i)], lo, hi))
    tg.addTier(PointTier("pts", [Point(p, lab_p)], lo, hi))
    tg.addTier(IntervalTier("none", [], lo, hi))
    return _tgToDictionary(tg)


def _build(times, which, value):
    name, li, lp = "w", "x", "y"
    if which == "name":
        name = value
    elif which == "interval":
        li = value
    else:
        lp = value
    return _tg(times, name, li, lp)


def _num_ok(tok, val):
    return float(tok) == val


def check_decoded(text, tg, blanks):
    """concrete: the independent reader recovers exactly the in-memory content"""
    try:
        got = spec_io.read_textgrid(text)
    except ValueError as e:
        return "not a well-formed TextGrid text file: " + str(e)
    if not (_num_ok(got["xmin"], tg["xmin"]) and _num_ok(got["xmax"], tg["xmax"])):
        return "file span"
    if len(got["tiers"]) != len(tg["tiers"]):
        return "tier count"
    for g, t in zip(got["tiers"], tg["tiers"]):
        if g["class"] != t["class"] or g["name"] != t["name"]:
            return "tier class/name"
        if not (_num_ok(g["xmin"], t["xmin"]) and _num_ok(g["xmax"], t["xmax"])):
            return "tier span"
        want = [tuple(e) for e in t["entries"]]
        have = [tuple([float(x) for x in h[:-1]] + [h[-1]]) for h in g["entries"]]
        if blanks and t["class"] == "IntervalTier":
            pos = tg["xmin"]
            for (s, e, l) in have:
                if s != pos or not s < e:
                    return "interval tier is not an ascending gap-free partition of [xmin,xmax]"
                pos = e
            if pos != tg["xmax"]:
                return "partition does not end at xmax"
            have = [h for h in have if h[2] != ""]
        if have != want:
            return "entries"
    return True


_PS = {}


def _prefix_suffix(fmt, which, ti, blanks):
    key = (fmt, which, ti, blanks)
    if key not in _PS:
        text = textgrid_io.getTextgridAsStr(_build(TIMES[ti], which, MARK), fmt, blanks, None, None, None)
        field = spec_io.q(MARK)
        if text.count(field) != 1:
            raise AssertionError("marker field not written exactly once")
        i = text.index(field)
        _PS[key] = (text[:i], text[i + len(field):])
    return _PS[key]


def ob_uniform(fmt, which, ti, blanks, maxlen, timeout):
    P, S_ = _prefix_suffix(fmt, which, ti, blanks)

    def pre(s):
        ok = in_alphabet(s, ALPHA, maxlen) and s == s.strip()  # tier constructors strip labels
        if which == "name":
            ok = ok and "\n" not in s
        return ok

    def body(s):
        text = textgrid_io.getTextgridAsStr(_build(TIMES[ti], which, s), fmt, blanks, None, None, None)
        return True if text == P + spec_io.q(s) + S_ else "written text is not prefix + quoted(field) + suffix"

    return Ob("uniform-%s-%s-t%d-%s" % (fmt.split("_")[0], which, ti, "blanks" if blanks else "noblanks"), S("s"), body, pre, timeout=timeout, funcs=FUNCS[:3] + FUNCS[5:6], bounds="symbolic %s, <= %d chars over the alphabet; 3 tiers, number-shape set %d" % ({"name": "tier name", "interval": "interval label", "point": "point label"}[which], maxlen, ti),
              canaries=[{"target": "praatio.utilities.utils:escapeQuotes", "find": "text.replace('\"', '\"\"')", "replace": "text"}] if (which == "point" and fmt == "long_textgrid") else [])


def writer_kernels(fmt):
    """field-rendering expressions of the real writer: every `"<template>" % ...`,
    `"<template>".format(...)` or f-string that contains exactly one utils.escapeQuotes(X)
    call, as a function of X"""
    import ast
    import copy
    import inspect
    import textwrap

    func = textgrid_io._tgToShortTextForm if fmt == "short_textgrid" else textgrid_io._tgToLongTextForm
    fdef = ast.parse(textwrap.dedent(inspect.getsource(func))).body[0]
    out = []
    for node in ast.walk(fdef):
        is_mod = isinstance(node, ast.BinOp) and isinstance(node.op, ast.Mod) and isinstance(node.left, ast.Constant) and isinstance(node.left.value, str)
        is_fmt = isinstance(node, ast.Call) and isinstance(node.func, ast.Attribute) and node.func.attr == "format" and isinstance(node.func.value, ast.Constant) and isinstance(node.func.value.value, str)
        is_fstr = isinstance(node, ast.JoinedStr)
        if is_mod or is_fmt or is_fstr:
            new = copy.deepcopy(node)
            calls = [c for c in ast.walk(new) if isinstance(c, ast.Call) and ast.unparse(c.func).endswith("escapeQuotes")]
            if len(calls) != 1:
                continue
            calls[0].args = [ast.Name(id="__field__", ctx=ast.Load())]
            src = ast.unparse(new)
            fn = eval("lambda __field__: " + src, dict(func.__globals__, tab=" " * 4))
            out.append((ast.unparse(node), fn))
    want = 2 if fmt == "short_textgrid" else 3
    if len(out) < want:
        raise AssertionError("anchor missing: expected >= %d field-rendering expressions (template %% escapeQuotes(..)) in %s, found %d" % (want, func.__name__, len(out)))
    return out


def ob_kernel(fmt, idx, maxlen, timeout):
    src, fn = writer_kernels(fmt)[idx]
    m = fn(MARK)
    field = spec_io.q(MARK)
    if m.count(field) != 1:
        raise AssertionError("marker not rendered exactly once by " + src)
    pre_, suf_ = m[: m.index(field)], m[m.index(field) + len(field):]

    def pre(s):
        return in_alphabet(s, ALPHA, maxlen)

    def body(s):
        return True if fn(s) == pre_ + spec_io.q(s) + suf_ else "field is not rendered as the quoted string of the specification"

    return Ob("field-kernel-%s-%d" % (fmt.split("_")[0], idx), S("s"), body, pre, timeout=timeout, funcs=FUNCS[1:3] + FUNCS[5:6], bounds="writer expression `%s` for every field <= %d chars over the alphabet" % (src, maxlen),
              canaries=[{"target": "praatio.utilities.utils:escapeQuotes", "find": "text.replace('\"', '\"\"')", "replace": "text"}] if idx == 0 else [])


MARK2 = "S3COND mark"


def ob_marker_diff(fmt, timeout):
    """concrete cross-check M: the text around the field does not depend on the field, and
    each field is rendered exactly once, through one of the kernels"""

    def check(ti, b, w):
        which = ("interval", "point", "name")[w]
        blanks = bool(b)
        t1 = textgrid_io.getTextgridAsStr(_build(TIMES[ti], which, MARK), fmt, blanks, None, None, None)
        t2 = textgrid_io.getTextgridAsStr(_build(TIMES[ti], which, MARK2), fmt, blanks, None, None, None)
        if t1.count(spec_io.q(MARK)) != 1 or t1.count(MARK) != 1:
            return "field not rendered exactly once"
        if t2 != t1.replace(spec_io.q(MARK), spec_io.q(MARK2)):
            return "text around the field depends on the field"
        rendered = [fn(MARK) for _, fn in writer_kernels(fmt)]
        if not any(r in t1 for r in rendered):
            return "field is not rendered by one of the sliced expressions"
        P, S_ = _prefix_suffix(fmt, which, ti, blanks)
        if not P or P[-1] not in spec_io.WS:
            return "field does not start as a free-standing value"
        return True

    def run():
        n = 0
        for ti in range(len(TIMES)):
            for b in (0, 1):
                for w in (0, 1, 2):
                    n += 1
                    r = check(ti, b, w)
                    if r is not True:
                        return {"verdict": "REFUTED", "queries": n, "cex_args": {"ti": ti, "b": b, "w": w}, "message": str(r), "refute_kind": "CONCRETE"}
        return {"verdict": "CONFIRMED", "queries": n, "detail": "concrete two-marker cross-check"}

    return Ob("marker-diff-concrete-%s" % fmt.split("_")[0], I("ti", "b", "w"), check, kind="smt", smt=run, timeout=timeout, funcs=FUNCS[:3], bounds="concrete cross-check: two marker values x 3 fields x 3 number-shape sets x blank filling")


def ob_string_lemma(maxlen, timeout):
    def pre(s, c):
        return in_alphabet(s, ALPHA, maxlen) and len(c) == 1 and c != '"' and c in ALPHA + "\t"

    def body(s, c):
        text = spec_io.q(s) + c
        v, nxt = spec_io.read_string(text, 0)
        if v != s:
            return "string token does not decode to the field"
        if nxt != len(text) - 1:
            return "string token is not self-delimiting"
        return True

    return Ob("string-token-lemma-len%d" % maxlen, S("s", "c"), body, pre, timeout=timeout, funcs=["oracle.spec_io.read_string / q (the specification's quoting rule)"], bounds="field <= %d chars over the alphabet, followed by any non-quote character" % maxlen)


KEYWORDS = ["item [2]:", "intervals [1]:", '"IntervalTier"', 'text = "x"', "ooTextFile short", 'x"', '""', "a\n\nb", "5e-05", "<exists>", "é 中"]


def _cases():
    for i in range(len(KEYWORDS) + 1):
        for ti in range(len(TIMES)):
            for b in (0, 1):
                yield i, ti, b


def ob_concrete(fmt, timeout):
    """concrete cross-check (NOT a solver verdict): clause K of the module docstring"""

    def check(i, ti, b):
        v = ([MARK] + KEYWORDS)[i]
        blanks = bool(b)
        for which in ("interval", "point", "name"):
            vv = v.replace("\n", " ") if which == "name" else v
            text = textgrid_io.getTextgridAsStr(_build(TIMES[ti], which, vv), fmt, blanks, None, None, None)
            r = check_decoded(text, _build(TIMES[ti], which, vv), blanks)
            if r is not True:
                return "%s (%s field)" % (r, which)
            if i == 0:
                P, S_ = _prefix_suffix(fmt, which, ti, blanks)
                if not P or P[-1] not in spec_io.WS:
                    return "prefix does not end between two values"
                try:
                    spec_io.scan(P)
                except ValueError:
                    return "prefix ends inside a string"
        return True

    def run():
        n = 0
        for i, ti, b in _cases():
            n += 1
            r = check(i, ti, b)
            if r is not True:
                return {"verdict": "REFUTED", "queries": n, "cex_args": {"i": i, "ti": ti, "b": b}, "message": str(r), "refute_kind": "CONCRETE"}
        return {"verdict": "CONFIRMED", "queries": n, "detail": "concrete cross-check over %d (value, number-shape, blank-filling) cases" % n}

    return Ob("decode-concrete-%s" % fmt.split("_")[0], I("i", "ti", "b"), check, kind="smt", smt=run, timeout=timeout, funcs=FUNCS[:3] + FUNCS[4:], bounds="concrete cross-check: marker and keyword-looking labels/names %r x 3 number-shape sets x blank filling" % KEYWORDS)


def ob_formats_agree(timeout):
    """the two text forms decode to identical content (concrete, via the independent reader)"""

    def check(i, ti, b):
        v = ([MARK] + KEYWORDS)[i]
        sh = spec_io.read_textgrid(textgrid_io.getTextgridAsStr(_build(TIMES[ti], "interval", v), "short_textgrid", bool(b), None, None, None))
        lo = spec_io.read_textgrid(textgrid_io.getTextgridAsStr(_build(TIMES[ti], "interval", v), "long_textgrid", bool(b), None, None, None))
        return True if sh == lo else "short and long text forms decode to different content"

    def run():
        n = 0
        for i, ti, b in _cases():
            n += 1
            r = check(i, ti, b)
            if r is not True:
                return {"verdict": "REFUTED", "queries": n, "cex_args": {"i": i, "ti": ti, "b": b}, "message": str(r), "refute_kind": "CONCRETE"}
        return {"verdict": "CONFIRMED", "queries": n, "detail": "concrete cross-check"}

    return Ob("long-vs-short-concrete", I("i", "ti", "b"), check, kind="smt", smt=run, timeout=timeout, funcs=FUNCS[:3], bounds="concrete cross-check over the same cases")


class _IdJson:
    @staticmethod
    def dumps(obj, **k):
        return obj


def _setup_json():
    old = textgrid_io.json
    textgrid_io.json = _IdJson

    def undo():
        textgrid_io.json = old

    return undo


def ob_json(maxlen, timeout):
    def pre(s, nm):
        return in_alphabet(s, ALPHA, maxlen) and in_alphabet(nm, "ab", 1)

    def body(s, nm):
        tg = _tg(TIMES[1], nm, s, s)
        full = textgrid_io.getTextgridAsStr(_tg(TIMES[1], nm, s, s), "textgrid_json", False, None, None, None)
        if set(full.keys()) != {"xmin", "xmax", "tiers"} or (full["xmin"], full["xmax"]) != (tg["xmin"], tg["xmax"]):
            return "textgrid_json header"
        for g, t in zip(full["tiers"], tg["tiers"]):
            if set(g.keys()) != {"class", "name", "xmin", "xmax", "entries"}:
                return "textgrid_json tier keys"
            if (g["class"], g["name"], g["xmin"], g["xmax"]) != (t["class"], t["name"], t["xmin"], t["xmax"]):
                return "textgrid_json tier"
            if [tuple(e) for e in g["entries"]] != [tuple(e) for e in t["entries"]]:
                return "textgrid_json entries"
        small = textgrid_io.getTextgridAsStr(_tg(TIMES[1], nm, s, s), "json", False, None, None, None)
        if set(small.keys()) != {"start", "end", "tiers"} or (small["start"], small["end"]) != (tg["xmin"], tg["xmax"]):
            return "json header"
        if list(small["tiers"].keys()) != [t["name"] for t in tg["tiers"]]:
            return "json tier names/order"
        for t in tg["tiers"]:
            g = small["tiers"][t["name"]]
            if set(g.keys()) != {"type", "entries"} or g["type"] != t["class"]:
                return "json tier"
            if [tuple(e) for e in g["entries"]] != [tuple(e) for e in t["entries"]]:
                return "json entries"
        return True

    return Ob("json-schemas", S("s", "nm"), body, pre, timeout=timeout, setup=_setup_json, funcs=[FUNCS[0], FUNCS[3]], bounds="symbolic label (<= %d chars) and 1-char tier name; object handed to json.dumps vs the README schemas" % maxlen)


def ob_partition_ieee(k, timeout):
    names = ["lo", "hi"] + [n for i in range(k) for n in ("s%d" % i, "e%d" % i)]

    def pre(lo, hi, *ts):
        return ivs_wf_pre(lo, hi, *ts) & finite(lo, hi) & (lo < hi)

    def body(lo, hi, *ts):
        ents = [(ts[2 * i], ts[2 * i + 1], LABELS[i]) for i in range(k)]
        tier = {"class": "IntervalTier", "name": "t", "xmin": lo, "xmax": hi, "entries": [Interval(*e) for e in ents]}
        textgrid_io._fillInBlanks(tier, "", lo, hi)  # as called by _prepTgForSaving after _sortEntries
        pos = lo
        for (s, e, l) in tier["entries"]:
            if s != pos or not s < e:
                return "not an ascending gap-free overlap-free partition"
            pos = e
        if pos != hi:
            return "does not end at xmax"
        if [tuple(e) for e in tier["entries"] if e[2] != ""] != ents:
            return "labelled entries changed"
        return True

    return Ob("fillblanks-partition-ieee-k%d" % k, F(*names), body, pre, fmode="ieee", timeout=timeout, funcs=FUNCS[4:5], bounds="k=%d intervals, any finite binary64 timestamps inside [lo,hi]" % k)


def ob_anchor_error(name, msg):
    return not_encoded(name, msg, FUNCS[1:3])


def obligations(tier):
    obs = []
    if tier == "quick":
        ml, T = 3, 400
        combos = []
        ks = (0, 2)
    else:
        ml, T = 4, 3000
        combos = [("short_textgrid", w, ti, b) for w in ("interval", "point", "name") for ti in (0, 1) for b in (True, False)]
        ks = (0, 1, 2, 3)
    for f in ("short_textgrid", "long_textgrid"):
        try:
            for idx in range(len(writer_kernels(f))):
                obs.append(ob_kernel(f, idx, ml, T))
            obs.append(ob_marker_diff(f, 300))
        except AssertionError as e:
            # the writer no longer has the expected shape: report it, but still run the
            # whole-file obligations, which do not depend on the shape of the code
            obs.append(ob_anchor_error("field-kernels-%s" % f.split("_")[0], str(e)))
        obs.append(ob_concrete(f, 300))
    for f, w, ti, b in combos:
        obs.append(ob_uniform(f, w, ti, b, 3, T))
    obs.append(ob_string_lemma(ml, T))
    # partition of the file's span under min/max overrides and sliver absorption (shared with C04)
    from harness import C04

    for k in ks:
        for o in (C04.ob_override(k, "sym", T), C04.ob_fill(k, "sym", T)):
            o.name = "partition-" + o.name
            obs.append(o)
    # every tier's own span reaches the file unchanged (all text formats take it from here)
    obs.append(C04.ob_spans(2, 200))
    obs.append(C04.ob_spans(1, 300, blanks=True))
    obs.append(ob_formats_agree(300))
    from harness import numtok

    obs.append(numtok.ob_numtostr())
    obs.append(ob_json(ml, T))
    for k in ks:
        obs.append(ob_partition_ieee(k, T))
    return obs
