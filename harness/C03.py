"""C03 - the reader returns exactly what a spec-conformant TextGrid file encodes."""
import ast
import inspect
import os
import shutil
import tempfile
import textwrap

from engine.hlib import *  # noqa
from harness import ioshared as IO
from harness import numtok
from oracle import spec_io

from praatio import textgrid as tgapi
from praatio.utilities import textgrid_io, errors, constants

FUNCS = [
    "praatio.utilities.textgrid_io._fetchTextRow/_fetchRow (short reader)",
    "praatio.utilities.textgrid_io._parseNormalTextgrid (field statements sliced from the AST)",
    "praatio.utilities.textgrid_io._removeBlanks",
    "praatio.textgrid.openTextgrid (duplicate-name loop sliced from the AST)",
    "praatio.textgrid.openTextgrid / textgrid_io.parseTextgridStr on real files",
]
ASSUMPTIONS = [
    "files are produced by the independent specification writer oracle/spec_io.write_textgrid (validated by setup.sh: it regenerates 20 of the repository's 23 Praat/ELAN fixtures byte for byte)",
    "labels/names in the files are trimmed, contain no carriage return, alphabet {\", a, space, newline, =, 1, ], e-acute}, <= 3 chars (quick) / 4 (thorough); praatio normalises labels with strip()",
    "encodings (UTF-8 with/without BOM, UTF-16 with BOM) and CRLF go through io.open/codecs: exercised by the concrete cross-check only - file-system and codec behaviour is outside the reach of the solver",
]


def ob_short_string(maxlen, timeout):
    CONT = ["", "0.5\n", '"x"\n', '"TextTier"\n', "\n"]

    def pre(s, c):
        return in_alphabet(s, IO.ALPHA, maxlen) and s == s.strip() and 0 <= c < len(CONT)

    def body(s, c):
        row = spec_io.q(s) + "\n"
        word, nxt = textgrid_io._fetchTextRow(row + CONT[c], 0)
        if word != s:
            return "string value not recovered"
        return True if nxt == len(row) else "reader does not continue at the next row"

    return Ob("short-string-len%d" % maxlen, S("s") + I("c"), body, pre, timeout=timeout, funcs=FUNCS[:1], bounds="specification-quoted string <= %d chars -> _fetchTextRow, 5 continuations" % maxlen)


def ob_long_field(which, style, maxlen, timeout):
    rik, rpk, rnk = IO.long_reader_kernels()
    lk_i, lk_p = IO.long_reader_kernels.label_kernels
    key = {"name": "name", "interval": "text", "point": "mark"}[which]
    trail = {"praat": " \n", "elan": "\n", "blankless": "\n", "crlf-normalised": " \n"}[style]
    eq = "=" if style == "blankless" else " = "

    def pre(s):
        ok = in_alphabet(s, IO.ALPHA, maxlen) and s == s.strip()
        if which == "name":
            ok = ok and "\n" not in s and len(s) >= 1
        return ok

    def body(s):
        row = "            " + key + eq + spec_io.q(s) + trail
        got = {"name": rnk, "interval": lk_i, "point": lk_p}[which](row)
        return True if got == s else "field not recovered character for character"

    return Ob("long-field-%s-%s-len%d" % (which, style, maxlen), S("s"), body, pre, timeout=timeout, funcs=FUNCS[1:2], bounds="specification-written %s line (%s style), field <= %d chars -> sliced reader statements" % (key, style, maxlen))


def ob_remove_blanks(timeout):
    def pre(a, b, c):
        return all(in_alphabet(x, "a ", 1) for x in (a, b, c))

    def body(a, b, c):
        labs = [a.strip(), b.strip(), c.strip()]
        tier = {"class": "IntervalTier", "name": "t", "xmin": 0.0, "xmax": 3.0, "entries": [(0.0, 1.0, labs[0]), (1.0, 2.0, labs[1]), (2.0, 3.0, labs[2])]}
        pt = {"class": "TextTier", "name": "p", "xmin": 0.0, "xmax": 3.0, "entries": [(0.5, labs[0]), (1.5, labs[1])]}
        textgrid_io._removeBlanks(tier)
        textgrid_io._removeBlanks(pt)
        if list(tier["entries"]) != [e for e in [(0.0, 1.0, labs[0]), (1.0, 2.0, labs[1]), (2.0, 3.0, labs[2])] if e[2] != ""]:
            return "includeEmptyIntervals=False must drop exactly the entries with an empty label"
        if list(pt["entries"]) != [e for e in [(0.5, labs[0]), (1.5, labs[1])] if e[1] != ""]:
            return "point tier blanks"
        if (tier["name"], tier["xmin"], tier["xmax"], tier["class"]) != ("t", 0.0, 3.0, "IntervalTier"):
            return "something else changed"
        return True

    return Ob("remove-blanks", S("a", "b", "c"), body, pre, timeout=timeout, funcs=FUNCS[2:3], bounds="3 intervals / 2 points with symbolic empty-or-not labels")


def dup_kernel():
    """the duplicate-name loop of openTextgrid as a function (tgAsDict, duplicateNamesMode)"""
    func = tgapi.openTextgrid
    fdef = ast.parse(textwrap.dedent(inspect.getsource(func))).body[0]
    loop = None
    for i, st in enumerate(fdef.body):
        if isinstance(st, ast.For) and "tiers" in ast.unparse(st.iter):
            loop = (i, st)
    if loop is None:
        raise AssertionError("anchor missing: `for tier in tgAsDict['tiers']` loop in openTextgrid")
    i, st = loop
    pre = [s for s in fdef.body[:i] if isinstance(s, (ast.Assign, ast.AnnAssign)) and not any(isinstance(c, ast.Call) for c in ast.walk(s))]  # plain initialisations (tierNames = [])
    code = "def k(tgAsDict, duplicateNamesMode):\n%s\n    return tgAsDict\n" % textwrap.indent("\n".join(ast.unparse(x) for x in pre + [st]), "    ")
    ns = {}
    exec(compile(code, "<duplicate-name slice of openTextgrid>", "exec"), func.__globals__, ns)
    return ns["k"]


def ob_duplicates(n, maxlen, timeout):
    k = dup_kernel()
    names = ["n%d" % i for i in range(n)]

    def pre(*ns):
        return all(in_alphabet(x, "a_2", maxlen) and len(x) >= 1 for x in ns)

    def body(*ns):
        ns = list(ns)
        dup = len(set(ns)) != len(ns)
        d = {"xmin": 0, "xmax": 1, "tiers": [{"class": "IntervalTier", "name": x, "xmin": 0, "xmax": 1, "entries": []} for x in ns]}
        try:
            k(d, "error")
            raised = False
        except errors.DuplicateTierName:
            raised = True
        if raised != dup:
            return "DuplicateTierName raised iff a name occurs twice"
        d = {"xmin": 0, "xmax": 1, "tiers": [{"class": "IntervalTier", "name": x, "xmin": 0, "xmax": 1, "entries": []} for x in ns]}
        out = [t["name"] for t in k(d, "rename")["tiers"]]
        # reference: in file order, a repeated name becomes the first unused name_i, i = 2, 3, ..
        seen = []
        want = []
        for x in ns:
            new = x
            i = 2
            while new in seen:
                new = x + "_" + str(i)
                i += 1
            seen.append(new)
            want.append(new)
        if out != want:
            return "renamed to unique names in file order"
        if len(set(out)) != len(out):
            return "names not unique after renaming"
        return True

    return Ob("duplicate-names-n%d-len%d" % (n, maxlen), S(*names), body, pre, timeout=timeout, funcs=FUNCS[3:4], bounds="%d tiers, names <= %d chars over {a,_,2} (so that generated names can collide with existing ones)" % (n, maxlen))


# labels: also characters that str.splitlines() treats as line ends although the format does not
LABS = ["x", 'say "hi"', "two\nlines", "", "é 中", '""', "a = 1", "tab\there", "first\u2028second", "page\x0cbreak", "a\x85b\x1cc\x0bd\u2029e"]
# (xmin, xmax) or (xmin, boundary, xmax): also intervals that are short relative to their position
NUMS = [("0", "1.5"), ("-0", "2"), ("0.0", "1e1"), ("5e-05", "1.25E+2"), ("0", "20000000000000000"), ("1e15", "1000000000000000.5", "1000000000000001"), ("100", "100.0000000000005", "100.000000000001")]


def _spec_tg(i, j, dupnames=False):
    if len(NUMS[j]) == 3:
        lo, mid, hi = NUMS[j]
    else:
        lo, hi = NUMS[j]
        mid = "0.5" if float(hi) > 1 else "0.00001"
    lab = LABS[i]
    return {"xmin": lo, "xmax": hi, "tiers": [
        {"class": "IntervalTier", "name": "words", "xmin": lo, "xmax": hi, "entries": [(lo, mid, lab), (mid, hi, "")]},
        # tiers need not span their container: one starts later, one ends earlier
        {"class": "TextTier", "name": "words" if dupnames else "marks", "xmin": mid, "xmax": hi, "entries": [(mid, lab)]},
        {"class": "IntervalTier", "name": "empty", "xmin": lo, "xmax": mid, "entries": []},
    ]}


def ob_files_concrete():
    """concrete cross-check through real files: layouts x encodings x newlines x
    includeEmptyIntervals; long and short encodings of the same data open to equal Textgrids"""
    ENC = ["utf-8", "utf-8-sig", "utf-16"]
    LAY = ["long", "short", "elan"]

    def check(i, j, lay, enc, crlf, incl):
        t = _spec_tg(i, j)
        text = spec_io.write_textgrid(t, LAY[lay], "\r\n" if crlf else "\n")
        d = tempfile.mkdtemp(prefix="verif_c03_")
        try:
            fn = os.path.join(d, "f.TextGrid")
            with open(fn, "w", encoding=ENC[enc], newline="") as fd:
                fd.write(text)
            r = tgapi.openTextgrid(fn, bool(incl), reportingMode="silence")
            if list(r.tierNames) != ["words", "marks", "empty"]:
                return "tier names/order"
            if (r.minTimestamp, r.maxTimestamp) != (abs(float(t["xmin"])), float(t["xmax"])):
                return "span"
            for st, rt in zip(t["tiers"], r.tiers):
                want = [tuple([abs(float(x)) for x in e[:-1]] + [e[-1].strip()]) for e in st["entries"]]
                if not incl:
                    want = [w for w in want if w[-1] != ""]
                if [tuple(e) for e in rt.entries] != want:
                    return "entries of tier %s: %r" % (st["name"], [tuple(e) for e in rt.entries])
                if rt.tierType != st["class"]:
                    return "tier class"
                if (rt.minTimestamp, rt.maxTimestamp) != (abs(float(st["xmin"])), float(st["xmax"])):
                    return "span of tier %s: %r" % (st["name"], (rt.minTimestamp, rt.maxTimestamp))
            return True
        finally:
            shutil.rmtree(d, ignore_errors=True)

    def run():
        n = 0
        for i in range(len(LABS)):
            for j in range(len(NUMS)):
                for lay in range(3):
                    for enc in range(3):
                        for crlf in (0, 1):
                            for incl in (0, 1):
                                n += 1
                                try:
                                    r = check(i, j, lay, enc, crlf, incl)
                                except Exception as ex:  # noqa
                                    r = "exception " + type(ex).__name__ + ": " + str(ex)[:80]
                                if r is not True:
                                    return {"verdict": "REFUTED", "queries": n, "cex_args": {"i": i, "j": j, "lay": lay, "enc": enc, "crlf": crlf, "incl": incl}, "message": str(r), "refute_kind": "CONCRETE"}
        return {"verdict": "CONFIRMED", "queries": n, "detail": "concrete cross-check: %d spec-written files opened" % n}

    return Ob("spec-files-concrete", I("i", "j", "lay", "enc", "crlf", "incl"), check, kind="smt", smt=run, timeout=600, funcs=FUNCS[4:5], bounds="concrete cross-check: %d labels x %d number styles x {long,short,elan} x {utf-8, utf-8-sig, utf-16} x {LF,CRLF} x includeEmptyIntervals" % (len(LABS), len(NUMS)))


def ob_dup_files_concrete():
    def check(lay, mode):
        t = _spec_tg(0, 0, dupnames=True)
        text = spec_io.write_textgrid(t, ["long", "short", "elan"][lay])
        d = tempfile.mkdtemp(prefix="verif_c03_")
        try:
            fn = os.path.join(d, "f.TextGrid")
            with open(fn, "w", encoding="utf-8") as fd:
                fd.write(text)
            try:
                r = tgapi.openTextgrid(fn, True, reportingMode="silence", duplicateNamesMode=["error", "rename"][mode])
            except errors.DuplicateTierName:
                return True if mode == 0 else "DuplicateTierName in rename mode"
            if mode == 0:
                return "duplicate names accepted in error mode"
            return True if list(r.tierNames) == ["words", "words_2", "empty"] else "renamed names %r" % (r.tierNames,)
        finally:
            shutil.rmtree(d, ignore_errors=True)

    def run():
        n = 0
        for lay in range(3):
            for mode in range(2):
                n += 1
                r = check(lay, mode)
                if r is not True:
                    return {"verdict": "REFUTED", "queries": n, "cex_args": {"lay": lay, "mode": mode}, "message": str(r), "refute_kind": "CONCRETE"}
        return {"verdict": "CONFIRMED", "queries": n, "detail": "concrete cross-check"}

    return Ob("duplicate-names-files-concrete", I("lay", "mode"), check, kind="smt", smt=run, timeout=120, funcs=FUNCS[4:5], bounds="concrete cross-check: file with two tiers of the same name, 3 layouts x 2 modes")


def obligations(tier):
    obs = []
    if tier == "quick":
        ml, T = 3, 600
        styles = [("interval", "praat"), ("point", "elan"), ("name", "praat"), ("interval", "blankless")]
        obs.append(ob_duplicates(3, 1, T))
        obs.append(ob_duplicates(3, 3, T))
    else:
        ml, T = 4, 3400
        styles = [(w, st) for w in ("interval", "point", "name") for st in ("praat", "elan", "blankless")]
        obs.append(ob_duplicates(3, 3, T))
        obs.append(ob_duplicates(4, 1, T))
    obs.append(ob_short_string(ml, T))
    for w, st in styles:
        guard(obs, "long-field-%s-%s" % (w, st), lambda: ob_long_field(w, st, ml, T), FUNCS[:2])
    guard(obs, "remove-blanks", lambda: ob_remove_blanks(T), FUNCS[:2])
    guard(obs, "num-regex-spec", lambda: numtok.obs_regex("spec"), numtok.FN[1:2])
    guard(obs, "num-strtoint-spec", lambda: numtok.ob_strtoint("spec"), numtok.FN[2:3])
    obs.append(numtok.ob_strtoint_concrete())
    from harness import C01

    obs.append(C01.ob_short_numrow(300))
    obs.append(C01.ob_json_updown(2, 120))
    obs.append(ob_files_concrete())
    obs.append(ob_dup_files_concrete())
    obs.append(IO.ob_keywords_pass("C03"))
    obs += IO.obs_keywords_kf()
    return obs
