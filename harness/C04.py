"""C04 - saving adds only blanks and absorbs only sub-threshold slivers."""
from engine.hlib import *  # noqa

from praatio.utilities import textgrid_io, errors
from praatio.utilities.constants import Interval, MIN_INTERVAL_LENGTH as MIN

FUNCS = [
    "praatio.utilities.textgrid_io._prepTgForSaving",
    "praatio.utilities.textgrid_io._fillInBlanks",
    "praatio.utilities.textgrid_io._removeUltrashortIntervals",
    "praatio.utilities.textgrid_io._sortEntries",
]
ASSUMPTIONS = [
    "the dict handed to _prepTgForSaving is the one Textgrid.save builds (_tgToDictionary): entries of a well-formed tier, tier span == textgrid span",
    "exact real arithmetic (the sliver test end - start < threshold is evaluated without rounding)",
]


def _ts(k):
    return [n for i in range(k) for n in ("s%d" % i, "e%d" % i)]


def _mkdict(lo, hi, ents, with_point=True, pt=None, tspan=None):
    """the dictionary Textgrid.save builds: real tiers -> real _tgToDictionary"""
    from praatio.data_classes.interval_tier import IntervalTier
    from praatio.data_classes.point_tier import PointTier
    from praatio.data_classes.textgrid import Textgrid, _tgToDictionary

    tg = Textgrid(lo, hi)
    tlo, thi = tspan if tspan is not None else (lo, hi)
    tg.addTier(IntervalTier("i", [Interval(*e) for e in ents], tlo, thi))
    if with_point:
        tg.addTier(PointTier("p", [(lo if pt is None else pt, "q")], lo, hi))
    return _tgToDictionary(tg)


def check_saved(ents, res, fmin, fmax, thr):
    """ents: original labelled entries; res: written entries; returns True or a tag"""
    res = [tuple(r) for r in res]
    # partition of the file's span
    if not res:
        return "interval tier written without any interval"
    if res[0][0] != fmin or res[-1][1] != fmax:
        return "written tier does not start/end at the file's span"
    for (s, e, l) in res:
        if not s < e:
            return "written interval without positive length"
        if thr is not None and e - s < thr:
            return "written interval shorter than the threshold"
    for x, y in zip(res, res[1:]):
        if x[1] != y[0]:
            return "gap or overlap between written intervals"
    # labels: exactly the long-enough originals, in order; nothing invented
    keep = [x for x in ents if thr is None or x[1] - x[0] >= thr]
    lab = [r for r in res if r[2] != ""]
    if [r[2] for r in lab] != [x[2] for x in keep]:
        return "labelled intervals written != labelled intervals at least as long as the threshold"
    # boundaries unchanged unless a sliver next to it was absorbed
    filled = []  # blank-filled original
    pos = fmin
    for (s, e, l) in ents:
        if pos < s:
            filled.append((pos, s, ""))
        filled.append((s, e, l))
        pos = e
    if pos < fmax:
        filled.append((pos, fmax, ""))
    sliv = [f for f in filled if thr is not None and f[1] - f[0] < thr]
    for (s, e, l), (s2, e2, l2) in zip(keep, lab):
        if s2 != s and not any(f[1] == s for f in sliv):
            return "start moved although no sliver precedes the interval"
        if e2 != e and not any(f[0] == e for f in sliv):
            return "end moved although no sliver follows the interval"
        if s2 > s or e2 < e:
            return "labelled interval shrank"
    if thr is None and res != filled:
        return "threshold disabled but the written tier is not the blank-filled tier"
    return True


def ob_fill(k, thr_kind, timeout):
    """no overrides; thr_kind: 'none' | 'sym'"""
    names = ["hi", "thr", "pt"] + _ts(k)

    def pre(hi, thr, pt, *ts):
        # the span itself is at least one threshold long (otherwise no conformant file exists)
        return ivs_wf_pre(0.0, hi, *ts) & (hi <= 512.0) & (thr > 0) & (thr <= hi) & within(0.0, hi, pt)

    def body(hi, thr, pt, *ts):
        ents = [(ts[2 * i], ts[2 * i + 1], LABELS[i]) for i in range(k)]
        th = None if thr_kind == "none" else thr
        d = _mkdict(0.0, hi, ents, pt=pt)
        # region split (known finding): some interval of the blank-filled tier reaches the threshold
        out = textgrid_io._prepTgForSaving(d, True, None, None, th)
        if out["xmin"] != 0.0 or out["xmax"] != hi:
            return "file span changed without an override"
        if [tuple(e) for e in out["tiers"][1]["entries"]] != [(pt, "q")]:
            return "point tier changed"
        if (out["tiers"][1]["xmin"], out["tiers"][1]["xmax"]) != (0.0, hi):
            return "point tier span changed"
        return check_saved(ents, out["tiers"][0]["entries"], 0.0, hi, th)

    return Ob("fill-k%d-thr-%s" % (k, thr_kind), F(*names), body, pre, fmode="real", timeout=timeout, funcs=FUNCS, bounds="k=%d labelled intervals with arbitrary gaps in [0,hi<=512]; threshold %s" % (k, "None" if thr_kind == "none" else "symbolic in (0,512]"),
              canaries=[{"target": "praatio.utilities.textgrid_io:_removeUltrashortIntervals", "find": "if end - start < minLength:", "replace": "if end - start <= minLength:"}] if (k == 2 and thr_kind == "sym") else [])


def ob_override(k, thr_kind, timeout):
    names = ["hi", "thr", "omin", "omax"] + _ts(k)

    def pre(hi, thr, omin, omax, *ts):
        return ivs_wf_pre(0.0, hi, *ts) & (hi <= 512.0) & (thr > 0) & (thr <= 512.0) & within(0.0, 1024.0, omin, omax) & (omin < omax) & (thr <= omax - omin)

    def body(hi, thr, omin, omax, *ts):
        ents = [(ts[2 * i], ts[2 * i + 1], LABELS[i]) for i in range(k)]
        th = None if thr_kind == "none" else thr
        d = _mkdict(0.0, hi, ents, with_point=False)
        outside = bool(ents) and (ents[0][0] < omin or ents[-1][1] > omax)
        try:
            out = textgrid_io._prepTgForSaving(d, True, omin, omax, th)
        except errors.ParsingError:
            return True if outside else "raised although every entry lies inside the requested span"
        if outside:
            return "entry outside the requested span written instead of raising"
        if out["xmin"] != omin or out["xmax"] != omax:
            return "override did not become the file's span"
        return check_saved(ents, out["tiers"][0]["entries"], omin, omax, th)

    return Ob("override-k%d-thr-%s" % (k, thr_kind), F(*names), body, pre, fmode="real", timeout=timeout, funcs=FUNCS, bounds="k=%d intervals; min/max overrides anywhere in [0,1024] (below, equal, above, inside the data span)" % k,
              canaries=[{"target": "praatio.utilities.textgrid_io:_fillInBlanks", "find": "if float(newEntries[-1][1]) > float(maxTime):", "replace": "if float(newEntries[-1][0]) > float(maxTime):"}] if (k == 2 and thr_kind == "none") else [])


def ob_spans(k, timeout, blanks=False):
    """a tier whose own span is narrower than the textgrid's keeps that span on save
    (no overrides; with blank filling the entries are padded, the tier header is not touched)"""
    names = ["hi", "tlo", "thi"] + _ts(k)

    def pre(hi, tlo, thi, *ts):
        return ivs_wf_pre(tlo, thi, *ts) & (0.0 <= tlo) & (tlo <= thi) & (thi <= hi) & (hi <= 512.0)

    def body(hi, tlo, thi, *ts):
        ents = [(ts[2 * i], ts[2 * i + 1], LABELS[i]) for i in range(k)]
        d = _mkdict(0.0, hi, ents, tspan=(tlo, thi))
        out = textgrid_io._prepTgForSaving(d, blanks, None, None, MIN)
        if (out["xmin"], out["xmax"]) != (0.0, hi):
            return "file span changed"
        t = out["tiers"][0]
        if (t["xmin"], t["xmax"]) != (tlo, thi):
            return "tier span not written as it is in memory"
        if (out["tiers"][1]["xmin"], out["tiers"][1]["xmax"]) != (0.0, hi):
            return "point tier span"
        if not blanks and [tuple(e) for e in t["entries"]] != ents:
            return "entries"
        return True

    return Ob("tier-span-kept-k%d%s" % (k, "-blanks" if blanks else ""), F(*names), body, pre, fmode="real", timeout=timeout, funcs=FUNCS[:1], bounds="k=%d intervals in a tier spanning [tlo,thi] inside the textgrid span [0,hi]; blank filling %s" % (k, "on" if blanks else "off"))


def ob_noblanks(k, timeout):
    names = ["hi", "thr", "omin", "omax"] + _ts(k)

    def pre(hi, thr, omin, omax, *ts):
        return ivs_wf_pre(0.0, hi, *ts) & (hi <= 512.0) & (thr > 0) & within(0.0, 1024.0, omin, omax, thr)

    def body(hi, thr, omin, omax, *ts):
        ents = [(ts[2 * i], ts[2 * i + 1], LABELS[i]) for i in range(k)]
        for mn, mx in ((None, None), (omin, omax)):
            d = _mkdict(0.0, hi, ents)
            out = textgrid_io._prepTgForSaving(d, False, mn, mx, thr)
            if [tuple(e) for e in out["tiers"][0]["entries"]] != ents:
                return "blank filling off but entries not written verbatim"
            if mn is not None and (out["xmin"], out["xmax"]) != (mn, mx):
                return "override did not become the file's span"
        return True

    return Ob("noblanks-k%d" % k, F(*names), body, pre, fmode="real", timeout=timeout, funcs=FUNCS[:1] + FUNCS[3:], bounds="k=%d intervals, blank filling off" % k)


def ob_rejected_save_concrete():
    """concrete cross-check through the file system (outside the solver's reach): a save that
    is rejected because an override cuts into the data raises and writes nothing - a fresh path
    does not come into existence, an earlier good file at the same path is left as it was"""
    import os
    import shutil
    import tempfile

    from praatio.data_classes.interval_tier import IntervalTier
    from praatio.data_classes.textgrid import Textgrid

    FMTS = ["short_textgrid", "long_textgrid", "json", "textgrid_json"]
    CUTS = [{"minTimestamp": 1.5}, {"maxTimestamp": 2.5}, {"minTimestamp": 1.5, "maxTimestamp": 2.5}]

    def check(f, c):
        tg = Textgrid(0.0, 4.0)
        tg.addTier(IntervalTier("i", [Interval(1.0, 2.0, "a"), Interval(2.0, 3.0, "b")], 0.0, 4.0))
        d = tempfile.mkdtemp(prefix="verif_c04_")
        try:
            fresh = os.path.join(d, "fresh.TextGrid")
            good = os.path.join(d, "good.TextGrid")
            tg.save(good, FMTS[f], True, reportingMode="silence")
            before = open(good, "rb").read()
            for fn in (fresh, good):
                try:
                    tg.save(fn, FMTS[f], True, reportingMode="silence", **CUTS[c])
                except errors.PraatioException:
                    pass
                else:
                    return "an override that cuts into the data was accepted"
            if os.path.exists(fresh):
                return "the rejected save left a file behind (%d bytes)" % os.path.getsize(fresh)
            if open(good, "rb").read() != before:
                return "the rejected save destroyed the file that was there"
            return True
        finally:
            shutil.rmtree(d, ignore_errors=True)

    def run():
        n = 0
        for f in range(len(FMTS)):
            for c in range(len(CUTS)):
                n += 1
                try:
                    r = check(f, c)
                except Exception as ex:  # noqa
                    r = "exception " + type(ex).__name__ + ": " + str(ex)[:100]
                if r is not True:
                    return {"verdict": "REFUTED", "queries": n, "cex_args": {"f": f, "c": c}, "message": str(r), "refute_kind": "CONCRETE"}
        return {"verdict": "CONFIRMED", "queries": n, "detail": "concrete cross-check"}

    return Ob("rejected-save-writes-nothing-concrete", I("f", "c"), check, kind="smt", smt=run, timeout=120, funcs=["praatio.data_classes.textgrid.Textgrid.save (file system)"], bounds="concrete cross-check: 4 formats x 3 overrides that cut into the data, fresh and existing target path")


def obligations(tier):
    obs = []
    obs.append(ob_rejected_save_concrete())
    if tier == "quick":
        for tk in ("none", "sym"):
            for k in (2, 3):
                obs.append(ob_fill(k, tk, 400))
                if k == 2 or tk == "none":
                    obs.append(ob_override(k, tk, 400))
        obs.append(ob_fill(0, "sym", 30))
        obs.append(ob_override(0, "sym", 30))
        obs.append(ob_noblanks(2, 60))
        obs.append(ob_spans(2, 120))
        obs.append(ob_spans(1, 200, blanks=True))
    else:
        for k in (0, 1, 2, 3):
            obs.append(ob_spans(k, 600))
            obs.append(ob_spans(k, 900, blanks=True))
        for tk in ("none", "sym"):
            for k in (0, 1, 2, 3):
                obs.append(ob_fill(k, tk, 2400))
                obs.append(ob_override(k, tk, 2400))
        for k in (1, 2, 3):
            obs.append(ob_noblanks(k, 300))
    from harness import numtok

    obs.append(numtok.ob_numtostr())  # a written boundary denotes the in-memory boundary (no collapse by rendering)
    return obs
