"""C05 - every reachable tier is well-formed.  One inductive step per operation: an
arbitrary well-formed tier (constructed directly, k<=2/3 entries) -> one operation with
arbitrary in-domain arguments -> well-formed result (and validate() agrees) or a praatio
error.  WF is pre- and postcondition, so confirmed steps compose to histories of any
length within the size bound at each step."""
from engine.hlib import *  # noqa

from praatio.data_classes.interval_tier import IntervalTier
from praatio.data_classes.point_tier import PointTier
from praatio.utilities.constants import Interval, Point
from praatio.utilities import errors

FUNCS = [
    "IntervalTier.__init__/_validate/_homogenizeEntries",
    "IntervalTier.crop/eraseRegion/insertSpace/editTimestamps/insertEntry/deleteEntry",
    "IntervalTier.union/difference/intersection/mergeLabels/appendTier/dejitter/morph/new",
    "PointTier.__init__/crop/eraseRegion/insertSpace/editTimestamps/insertEntry/deleteEntry/union/appendTier/dejitter/new",
    "IntervalTier.validate / PointTier.validate",
]
ASSUMPTIONS = [
    "real mode: timestamps equal or >= 2^-16 apart and <= 1024; rounding interactions are the subject of the C07/C08 QF_FP obligations",
]


def _ts(k, p=""):
    return [n for i in range(k) for n in (p + "s%d" % i, p + "e%d" % i)]


def wf_check(t):
    if isinstance(t, IntervalTier):
        if not wf_interval(t):
            return "ill-formed interval tier returned"
    else:
        if not wf_point(t):
            return "ill-formed point tier returned"
    if t.validate("silence") is not True:
        return "validate() disagrees"
    return True


# name -> (extra float params, extra precondition, callable(tier, other, *extra) -> tier)
def _iops():
    ops = {}
    for m in ("strict", "lax", "truncated"):
        for rb in (False, True):
            ops["crop-%s-%s" % (m, "rb" if rb else "norb")] = (["a", "b"], None, lambda t, o, a, b, m=m, rb=rb: t.crop(a, b, m, rb))
    for m in ("truncate", "categorical", "error"):
        for sh in (False, True):
            ops["erase-%s-%s" % (m, "shrink" if sh else "noshrink")] = (["a", "b"], None, lambda t, o, a, b, m=m, sh=sh: t.eraseRegion(a, b, m, sh))
    for m in ("stretch", "split", "no_change", "error"):
        ops["space-%s" % m] = (["a", "b"], None, lambda t, o, a, b, m=m: t.insertSpace(a, b, m))
    ops["shift"] = (["a"], None, lambda t, o, a: t.editTimestamps(a, "silence"))
    ops["shift-error"] = (["a"], None, lambda t, o, a: t.editTimestamps(a, "error"))
    for m in ("error", "replace", "merge"):

        def ins(t, o, a, b, m=m):
            t.insertEntry(Interval(a, b, "n"), m, "silence")
            return t

        ops["insert-%s" % m] = (["a", "b"], None, ins)  # incl. degenerate a >= b: must raise, not store it

    def ins_ws(t, o, a, b):
        t.insertEntry(Interval(a, b, "  n "), "merge", "silence")
        return t

    ops["insert-merge-unstripped-label"] = (["a", "b"], None, ins_ws)

    for m in ("replace", "merge"):

        def ins_err(t, o, a, b, m=m):
            t.insertEntry(Interval(a, b, "n"), m, "error")  # raises CollisionError after a collision
            return t

        ops["insert-%s-reporting-error" % m] = (["a", "b"], None, ins_err)

    def dele(t, o, a, b):
        t.deleteEntry(Interval(a, b, "x"))
        return t

    ops["delete"] = (["a", "b"], None, dele)
    ops["new"] = ([], None, lambda t, o: t.new())
    # new() with a span of the caller's choice and the tier's own entries: the constructor widens it to cover them
    ops["new-span"] = (["a", "b"], None, lambda t, o, a, b: t.new(minTimestamp=a, maxTimestamp=b))
    ops["new-name-max"] = (["a"], None, lambda t, o, a: t.new("renamed", None, None, a))
    return ops


def _ibinops():
    return {
        "union": lambda t, o: t.union(o),
        "difference": lambda t, o: t.difference(o),
        "intersection": lambda t, o: t.intersection(o),
        "mergeLabels": lambda t, o: t.mergeLabels(o),
        "appendTier": lambda t, o: t.appendTier(o),
        "dejitter": lambda t, o: t.dejitter(o, 0.25),
        "morph": lambda t, o: t.morph(o),
    }


def ob_iop(opname, k, timeout):
    extra, xpre, fn = _iops()[opname]
    names = ["lo", "hi"] + _ts(k) + extra

    def pre(lo, hi, *rest):
        ts, ex = rest[: 2 * k], rest[2 * k:]
        ok = ivs_wf_pre(lo, hi, *ts) & (0.0 <= lo) & (lo <= hi) & (hi <= 512.0) & within(-1024.0, 1024.0, *ex) & sep(lo, hi, 0.0, *rest)
        if xpre is not None:
            ok = ok & xpre(*ex)
        return ok

    def body(lo, hi, *rest):
        ts, ex = rest[: 2 * k], rest[2 * k:]
        tier = IntervalTier("t", mk_ivs(ts), lo, hi)
        try:
            r = fn(tier, None, *ex)
        except errors.PraatioException:
            return wf_check(tier)
        except ValueError:
            if opname == "delete":  # documented: raises if the entry is absent
                return wf_check(tier)
            raise
        w = wf_check(r)
        if w is not True:
            return w
        return wf_check(tier)

    return Ob("i-%s-k%d" % (opname, k), F(*names), body, pre, fmode="real", timeout=timeout, funcs=FUNCS[:3] + FUNCS[4:], bounds="k=%d intervals in span [lo,hi] within [0,512]; arguments anywhere in [-1024,1024]" % k)


def ob_ibin(opname, k, k2, timeout):
    fn = _ibinops()[opname]
    names = ["hi", "hi2"] + _ts(k) + _ts(k2, "o")

    def pre(hi, hi2, *rest):
        ts, os_ = rest[: 2 * k], rest[2 * k:]
        return ivs_wf_pre(0.0, hi, *ts) & ivs_wf_pre(0.0, hi2, *os_) & (hi <= 512.0) & (hi2 <= 512.0) & sep(hi, hi2, 0.0, *rest)

    def body(hi, hi2, *rest):
        ts, os_ = rest[: 2 * k], rest[2 * k:]
        tier = IntervalTier("t", mk_ivs(ts), 0.0, hi)
        other = IntervalTier("o", mk_ivs(os_, ["p", "q", "r"]), 0.0, hi2)
        try:
            r = fn(tier, other)
        except errors.PraatioException:
            return True
        return wf_check(r)

    return Ob("i-%s-%dx%d" % (opname, k, k2), F(*names), body, pre, fmode="real", timeout=timeout, funcs=FUNCS[2:3] + FUNCS[4:], bounds="receiver k=%d, argument k=%d intervals" % (k, k2))


def ob_construct_interval(k, labels, timeout):
    """constructor from arbitrary raw entries: unsorted, overlapping, degenerate, labels
    with surrounding whitespace, optional span arguments."""
    names = ["minT", "maxT"] + _ts(k)

    def pre(minT, maxT, *ts):
        return finite(minT, maxT, *ts)

    def body(minT, maxT, *ts):
        raw = [(ts[2 * i], ts[2 * i + 1], labels[i]) for i in range(k)]
        try:
            t = IntervalTier("t", raw, minT, maxT)
        except errors.PraatioException:
            return True
        return wf_check(t)

    return Ob("i-construct-k%d" % k, F(*names), body, pre, fmode="ieee", timeout=timeout, funcs=FUNCS[:1] + FUNCS[4:], bounds="k=%d raw entries, any finite binary64 times in any order, labels %r" % (k, labels[:k]))


def ob_construct_point(k, labels, timeout):
    names = ["minT", "maxT"] + ["t%d" % i for i in range(k)]

    def pre(minT, maxT, *ts):
        return finite(minT, maxT, *ts)

    def body(minT, maxT, *ts):
        raw = [(ts[i], labels[i]) for i in range(k)]
        try:
            t = PointTier("p", raw, minT, maxT)
        except errors.PraatioException:
            return True
        return wf_check(t)

    return Ob("p-construct-k%d" % k, F(*names), body, pre, fmode="ieee", timeout=timeout, funcs=FUNCS[3:], bounds="k=%d raw points, any finite binary64 times in any order" % k)


def _pops():
    ops = {}
    for rb in (False, True):
        ops["crop-%s" % ("rb" if rb else "norb")] = (["a", "b"], lambda t, o, a, b, rb=rb: t.crop(a, b, "lax", rb))
    for sh in (False, True):
        ops["erase-%s" % ("shrink" if sh else "noshrink")] = (["a", "b"], lambda t, o, a, b, sh=sh: t.eraseRegion(a, b, "truncate", sh))
    ops["space"] = (["a", "b"], lambda t, o, a, b: t.insertSpace(a, b, "stretch"))
    ops["shift"] = (["a"], lambda t, o, a: t.editTimestamps(a, "silence"))
    for m in ("error", "replace", "merge"):

        def ins(t, o, a, m=m):
            t.insertEntry(Point(a, " n "), m, "silence")
            return t

        ops["insert-%s" % m] = (["a"], ins)

    for m in ("replace", "merge"):

        def ins_err(t, o, a, m=m):
            t.insertEntry(Point(a, "n"), m, "error")
            return t

        ops["insert-%s-reporting-error" % m] = (["a"], ins_err)

    def dele(t, o, a):
        t.deleteEntry(Point(a, "x"))
        return t

    ops["delete"] = (["a"], dele)
    ops["new"] = ([], lambda t, o: t.new())
    ops["new-span"] = (["a", "b"], lambda t, o, a, b: t.new(minTimestamp=a, maxTimestamp=b))
    return ops


def ob_pop(opname, k, timeout):
    extra, fn = _pops()[opname]
    names = ["lo", "hi"] + ["t%d" % i for i in range(k)] + extra

    def pre(lo, hi, *rest):
        ts, ex = rest[:k], rest[k:]
        return pts_wf_pre(lo, hi, *ts) & (0.0 <= lo) & (lo <= hi) & (hi <= 512.0) & within(-1024.0, 1024.0, *ex) & sep(lo, hi, 0.0, *rest)

    def body(lo, hi, *rest):
        ts, ex = rest[:k], rest[k:]
        tier = PointTier("p", [Point(ts[i], LABELS[i]) for i in range(k)], lo, hi)
        try:
            r = fn(tier, None, *ex)
        except errors.PraatioException:
            return wf_check(tier)
        except ValueError:
            if opname == "delete":
                return wf_check(tier)
            raise
        w = wf_check(r)
        if w is not True:
            return w
        return wf_check(tier)

    return Ob("p-%s-k%d" % (opname, k), F(*names), body, pre, fmode="real", timeout=timeout, funcs=FUNCS[3:], bounds="k=%d points; arguments anywhere in [-1024,1024]" % k)


def ob_pbin(opname, k, k2, timeout):
    fns = {"union": lambda t, o: t.union(o), "appendTier": lambda t, o: t.appendTier(o), "dejitter": lambda t, o: t.dejitter(o, 0.25)}
    fn = fns[opname]
    names = ["hi", "hi2"] + ["t%d" % i for i in range(k)] + ["o%d" % i for i in range(k2)]

    def pre(hi, hi2, *rest):
        ts, os_ = rest[:k], rest[k:]
        return pts_wf_pre(0.0, hi, *ts) & pts_wf_pre(0.0, hi2, *os_) & (hi <= 512.0) & (hi2 <= 512.0) & sep(hi, hi2, 0.0, *rest)

    def body(hi, hi2, *rest):
        ts, os_ = rest[:k], rest[k:]
        tier = PointTier("p", [Point(ts[i], LABELS[i]) for i in range(k)], 0.0, hi)
        other = PointTier("o", [Point(os_[i], ["p", "q", "r"][i]) for i in range(k2)], 0.0, hi2)
        try:
            r = fn(tier, other)
        except errors.PraatioException:
            return True
        return wf_check(r)

    return Ob("p-%s-%dx%d" % (opname, k, k2), F(*names), body, pre, fmode="real", timeout=timeout, funcs=FUNCS[3:], bounds="receiver k=%d, argument k=%d points" % (k, k2))


def obligations(tier):
    obs = []
    if tier == "quick":
        K, T = 2, 240
        for op in sorted(_iops()):
            obs.append(ob_iop(op, K, T))
        for op in sorted(_ibinops()):
            if op == "dejitter":
                obs.append(ob_ibin(op, 1, 1, T))
            else:
                obs.append(ob_ibin(op, 2, 1, T))
        obs.append(ob_ibin("dejitter", 1, 0, 60))  # a reference tier without entries
        obs.append(ob_pbin("dejitter", 1, 0, 60))
        obs.append(ob_ibin("morph", 0, 0, 60))
        obs.append(ob_ibin("morph", 2, 2, T))
        obs.append(ob_construct_interval(2, [" x", "y "], 120))
        obs.append(ob_construct_point(2, [" x", "y "], 120))
        for op in sorted(_pops()):
            obs.append(ob_pop(op, K, 120))
        for op in ("union", "appendTier", "dejitter"):
            obs.append(ob_pbin(op, 2, 1, 120))
    else:
        for op in sorted(_iops()):
            for k in (0, 1, 2, 3):
                obs.append(ob_iop(op, k, 1800))
        for op in sorted(_ibinops()):
            for k, k2 in ((0, 0), (0, 1), (1, 0), (1, 1), (2, 1), (1, 2), (2, 2)):
                obs.append(ob_ibin(op, k, k2, 1800))
        for k in (0, 1, 2, 3):
            obs.append(ob_construct_interval(k, [" x", "y ", "\tz\n"], 900))
            obs.append(ob_construct_point(k, [" x", "y ", "\tz\n"], 900))
            for op in sorted(_pops()):
                obs.append(ob_pop(op, k, 900))
        for op in ("union", "appendTier", "dejitter"):
            for k, k2 in ((0, 0), (1, 0), (0, 1), (1, 1), (2, 1), (2, 2)):
                obs.append(ob_pbin(op, k, k2, 900))
    return obs
