"""C06 - crop keeps exactly the annotation inside the window, per mode."""
from engine.hlib import *  # noqa
from oracle import tier_ref as R

from praatio.data_classes.interval_tier import IntervalTier
from praatio.data_classes.point_tier import PointTier
from praatio.data_classes.textgrid import Textgrid
from praatio.utilities.constants import Interval, Point
from praatio.utilities import errors, utils

MODES = ["strict", "lax", "truncated"]

FUNCS = [
    "praatio.data_classes.interval_tier.IntervalTier.crop",
    "praatio.data_classes.point_tier.PointTier.crop",
    "praatio.utilities.utils.getIntervalsInInterval",
    "praatio.data_classes.textgrid.Textgrid.crop",
    "praatio.data_classes.interval_tier.IntervalTier.__init__/_validate",
]


def _ts(k):
    return [n for i in range(k) for n in ("s%d" % i, "e%d" % i)]


def ob_interval_crop(k, mode, rebase, fmode, timeout):
    names = ["a", "b", "hi"] + _ts(k)

    def pre(a, b, hi, *ts):
        return ivs_wf_pre(0.0, hi, *ts) & within(-1000.0, 1000.0, a, b, hi)

    def body(a, b, hi, *ts):
        ents = [(ts[2 * i], ts[2 * i + 1], LABELS[i]) for i in range(k)]
        tier = IntervalTier("t", mk_ivs(ts), 0.0, hi)
        before = snap_tier(tier)
        try:
            r = tier.crop(a, b, mode, rebase)
        except errors.ArgumentError:
            if snap_tier(tier) != before:
                return "mutated-on-error"
            return True if a >= b else "ArgumentError for a<b"
        if a >= b:
            return "a>=b accepted"
        if snap_tier(tier) != before:
            return "receiver mutated"
        exp, lo, hi2 = R.crop_interval_tier(ents, a, b, mode, rebase)
        if tuples(r.entries) != exp:
            return "entries differ"
        if r.minTimestamp != lo or r.maxTimestamp != hi2:
            return "span differs"
        if r.name != "t" or not isinstance(r, IntervalTier):
            return "name/type"
        return True

    canaries = [
        {
            "target": "praatio.utilities.utils:getIntervalsInInterval",
            "find": "interval.end <= start or interval.start >= end",
            "replace": "interval.end < start or interval.start >= end",
        },
    ]
    return Ob(
        "icrop-k%d-%s-%s" % (k, mode, "rebase" if rebase else "norebase"),
        F(*names),
        body,
        pre,
        fmode=fmode,
        timeout=timeout,
        canaries=canaries if (mode == "lax" and not rebase) else [],
        funcs=FUNCS[:1] + FUNCS[2:3] + FUNCS[4:],
        bounds="k=%d intervals, window (a,b) anywhere in [-1000,1000] incl. a>=b, span [0,hi]"
        % k,
    )


def ob_point_crop(k, rebase, fmode, timeout):
    names = ["a", "b", "hi"] + ["t%d" % i for i in range(k)]

    def pre(a, b, hi, *ts):
        return pts_wf_pre(0.0, hi, *ts) & within(-1000.0, 1000.0, a, b, hi)

    def body(a, b, hi, *ts):
        ents = [(ts[i], LABELS[i]) for i in range(k)]
        tier = PointTier("p", [Point(t, l) for t, l in ents], 0.0, hi)
        before = snap_tier(tier)
        try:
            r = tier.crop(a, b, "strict", rebase)
        except errors.ArgumentError:
            return True if a >= b else "ArgumentError for a<b"
        if a >= b:
            return "a>=b accepted"
        if snap_tier(tier) != before:
            return "receiver mutated"
        exp, lo, hi2 = R.crop_point_tier(ents, a, b, rebase)
        if tuples(r.entries) != exp:
            return "entries differ"
        if r.minTimestamp != lo or r.maxTimestamp != hi2:
            return "span differs"
        return True

    return Ob(
        "pcrop-k%d-%s" % (k, "rebase" if rebase else "norebase"),
        F(*names),
        body,
        pre,
        fmode=fmode,
        timeout=timeout,
        canaries=[
            {
                "target": "praatio.data_classes.point_tier:PointTier.crop",
                "find": "timestamp <= cropEnd",
                "replace": "timestamp < cropEnd",
            }
        ]
        if not rebase
        else [],
        funcs=FUNCS[1:2],
        bounds="k=%d points (distinct times), window anywhere incl. a>=b" % k,
    )


def ob_point_crop_defaults(timeout):
    """PointTier.crop(a, b) with its default arguments rebases to zero; the mode argument is
    ignored for points"""
    names = ["a", "b", "hi", "t0", "t1"]

    def pre(a, b, hi, t0, t1):
        return pts_wf_pre(0.0, hi, t0, t1) & within(0.0, 1000.0, a, b, hi) & (a < b)

    def body(a, b, hi, t0, t1):
        tier = PointTier("p", [Point(t0, "x"), Point(t1, "y")], 0.0, hi)
        exp, lo, hi2 = R.crop_point_tier([(t0, "x"), (t1, "y")], a, b, True)
        for r in (tier.crop(a, b), tier.crop(a, b, "strict", True), tier.crop(a, b, "truncated", True)):
            if tuples(r.entries) != exp or (r.minTimestamp, r.maxTimestamp) != (lo, hi2):
                return "PointTier.crop with default / other mode arguments"
        return True

    return Ob("pcrop-defaults", F(*names), body, pre, fmode="real", timeout=timeout, funcs=FUNCS[1:2], bounds="2 points, default arguments and all mode values")


def ob_tg_crop(mode, rebase, timeout):
    """Textgrid.crop over an interval tier (1 entry) and a point tier (1 entry)."""
    names = ["a", "b", "hi", "s0", "e0", "t0", "tlo", "thi"]

    def pre(a, b, hi, s0, e0, t0, tlo, thi):
        return (
            ivs_wf_pre(tlo, thi, s0, e0)
            & within(0.0, hi, t0, a, b)
            & (0.0 <= tlo)
            & (thi <= hi)
            & (hi <= 1000.0)
            & (a < b)
        )

    def body(a, b, hi, s0, e0, t0, tlo, thi):
        it = IntervalTier("i", [Interval(s0, e0, "x")], tlo, thi)  # the tier's own span may be narrower
        pt = PointTier("p", [Point(t0, "q")], 0.0, hi)
        tg = Textgrid(0.0, hi)
        tg.addTier(it)
        tg.addTier(pt)
        tg.addTier(IntervalTier("empty", [], 0.0, hi))
        before = snap_tg(tg)
        r = tg.crop(a, b, mode, rebase)
        if snap_tg(tg) != before:
            return "receiver mutated"
        if r.tierNames != ("i", "p", "empty"):
            return "names/order"
        if tuples(r.getTier("empty").entries) != []:
            return "empty tier"
        ei, loi, hii = R.crop_interval_tier([(s0, e0, "x")], a, b, mode, rebase)
        ep, lop, hip = R.crop_point_tier([(t0, "q")], a, b, rebase)
        ri, rp = r.getTier("i"), r.getTier("p")
        if tuples(ri.entries) != ei or tuples(rp.entries) != ep:
            return "tier entries differ from per-tier crop"
        if (ri.minTimestamp, ri.maxTimestamp) != (loi, hii):
            return "interval tier span"
        if (rp.minTimestamp, rp.maxTimestamp) != (lop, hip):
            return "point tier span"
        if mode != "lax":
            want = (0.0, b - a) if rebase else (a, b)
            if (r.minTimestamp, r.maxTimestamp) != want:
                return "textgrid span"
            if not r.validate("silence"):
                return "validate false"
        return True

    return Ob(
        "tgcrop-%s-%s" % (mode, "rebase" if rebase else "norebase"),
        F(*names),
        body,
        pre,
        fmode="real",
        timeout=timeout,
        funcs=FUNCS,
        bounds="3 tiers (1 interval with its own span inside the textgrid span, 1 point, 1 empty), window inside the textgrid span",
    )


def ob_rebase_shared_boundary_ieee(mode, timeout):
    """binary64: with rebasing every timestamp is shifted by the same amount - each one is the
    single rounded difference x - cropStart, so the boundary shared by two abutting intervals
    stays one value and a valid window never raises"""
    names = ["a", "b", "s0", "e0", "e1"]

    def pre(a, b, s0, e0, e1):
        return finite(a, b, s0, e0, e1) & (0.0 <= a) & (a <= s0) & (s0 < e0) & (e0 < e1) & (e1 <= b) & (b <= 1048576.0)

    def body(a, b, s0, e0, e1):
        tier = IntervalTier("t", [Interval(s0, e0, "x"), Interval(e0, e1, "y")], 0.0, b)
        r = tier.crop(a, b, mode, True)
        es = r.entries
        if len(es) != 2:
            return "entry count"
        if es[0][1] != es[1][0]:
            return "the shared boundary of two abutting intervals was split by rebasing"
        if (es[0][0], es[0][1], es[1][1]) != (s0 - a, e0 - a, e1 - a):
            return "a timestamp is not x - cropStart"
        if (r.minTimestamp, r.maxTimestamp) != (0.0, b - a):
            return "span is not [0, b-a]"
        return True

    return Ob("icrop-rebase-shared-boundary-ieee-%s" % mode, F(*names), body, pre, fmode="ieee", timeout=timeout, funcs=FUNCS[:1] + FUNCS[4:], bounds="two abutting intervals inside the window, all binary64 values in [0, 2^20]")


def obligations(tier):
    obs = []
    from harness import fp_kernels

    obs += fp_kernels.c06_obligations(tier)
    if tier == "thorough":  # the same claim through the whole public function (slow: the tier constructor's tolerant comparisons)
        for mode in MODES:
            obs.append(ob_rebase_shared_boundary_ieee(mode, 1800))
    if tier == "quick":
        for mode in MODES:
            obs.append(ob_interval_crop(2, mode, False, "ieee", 120))
            obs.append(ob_interval_crop(2, mode, True, "real", 120))
        obs.append(ob_point_crop(2, False, "ieee", 60))
        obs.append(ob_point_crop(2, True, "real", 60))
        obs.append(ob_point_crop_defaults(120))
        obs.append(ob_tg_crop("truncated", True, 120))
        obs.append(ob_tg_crop("lax", False, 120))
    else:
        for mode in MODES:
            for k in (0, 1, 2, 3):
                obs.append(ob_interval_crop(k, mode, False, "ieee", 900))
                obs.append(ob_interval_crop(k, mode, True, "real", 900))
        for k in (0, 1, 2, 3):
            obs.append(ob_point_crop(k, False, "ieee", 600))
            obs.append(ob_point_crop(k, True, "real", 600))
        for mode in MODES:
            for rebase in (False, True):
                obs.append(ob_tg_crop(mode, rebase, 600))
    return obs
