"""C07 - eraseRegion blanks exactly the region and shrinks time by exactly its length."""
from engine.hlib import *  # noqa
from oracle import tier_ref as R

from praatio.data_classes.interval_tier import IntervalTier
from praatio.data_classes.point_tier import PointTier
from praatio.data_classes.textgrid import Textgrid
from praatio.utilities.constants import Interval, Point
from praatio.utilities import errors

MODES = ["truncate", "categorical", "error"]
FUNCS = [
    "praatio.data_classes.interval_tier.IntervalTier.eraseRegion",
    "praatio.data_classes.interval_tier.IntervalTier.crop/insertEntry/deleteEntry",
    "praatio.data_classes.point_tier.PointTier.eraseRegion",
    "praatio.data_classes.textgrid.Textgrid.eraseRegion",
    "praatio.utilities.constants.Interval.__eq__ (math.isclose)",
]
ASSUMPTIONS = [
    "real mode: any two timestamps are equal or >= 2^-16 apart and <= 1024 (tolerant equality == exact equality)",
]


def _ts(k):
    return [n for i in range(k) for n in ("s%d" % i, "e%d" % i)]


def ob_interval_erase(k, mode, shrink, timeout, labels=LABELS, tag=""):
    names = ["a", "b", "hi"] + _ts(k)

    def pre(a, b, hi, *ts):
        return (
            ivs_wf_pre(0.0, hi, *ts)
            & within(0.0, hi, a, b)
            & (hi <= 1024.0)
            & sep(a, b, hi, 0.0, *ts)
        )

    def body(a, b, hi, *ts):
        ents = [(ts[2 * i], ts[2 * i + 1], labels[i]) for i in range(k)]
        tier = IntervalTier("t", mk_ivs(ts, labels), 0.0, hi)
        before = snap_tier(tier)
        exp = R.erase_intervals(ents, 0.0, hi, a, b, mode, shrink) if a < b else None
        try:
            r = tier.eraseRegion(a, b, mode, shrink)
        except errors.ArgumentError:
            if snap_tier(tier) != before:
                return "mutated-on-error"
            return True if a >= b else "ArgumentError for a<b"
        except errors.CollisionError:
            if snap_tier(tier) != before:
                return "mutated-on-error"
            return True if (a < b and exp == ("error",)) else "unexpected CollisionError"
        if a >= b:
            return "a>=b accepted"
        if exp == ("error",):
            return "collision not reported"
        if snap_tier(tier) != before:
            return "receiver mutated"
        ee, lo, hi2 = exp
        if tuples(r.entries) != ee:
            return "entries differ"
        if r.minTimestamp != lo or r.maxTimestamp != hi2:
            return "span differs"
        return True

    canaries = []
    if mode == "truncate" and shrink and k == 2 and not tag:
        canaries = [
            {
                "target": "praatio.data_classes.interval_tier:IntervalTier.eraseRegion",
                "find": "if matchList[-1].end > end:",
                "replace": "if matchList[-1].end >= end:",
            },
            {
                "target": "praatio.data_classes.interval_tier:IntervalTier.eraseRegion",
                "find": "elif interval.start >= end:",
                "replace": "elif interval.start > end:",
            },
        ]
    return Ob(
        "ierase-k%d-%s-%s%s" % (k, mode, "shrink" if shrink else "noshrink", tag),
        F(*names),
        body,
        pre,
        fmode="real",
        timeout=timeout,
        canaries=canaries,
        funcs=FUNCS[:2] + FUNCS[4:],
        bounds="k=%d intervals%s, region anywhere in the span [0,hi<=1024] incl. a>=b; exact real arithmetic, 2^-16 separation"
        % (k, " (equal labels)" if tag else ""),
    )


def ob_point_erase(k, shrink, timeout):
    names = ["a", "b", "hi"] + ["t%d" % i for i in range(k)]

    def pre(a, b, hi, *ts):
        return pts_wf_pre(0.0, hi, *ts) & within(0.0, hi, a, b) & (hi <= 1024.0) & sep(a, b, hi, 0.0, *ts)

    def body(a, b, hi, *ts):
        ents = [(ts[i], LABELS[i]) for i in range(k)]
        tier = PointTier("p", [Point(t, l) for t, l in ents], 0.0, hi)
        before = snap_tier(tier)
        try:
            r = tier.eraseRegion(a, b, "truncate", shrink)
        except errors.ArgumentError:
            return True if a >= b else "ArgumentError for a<b"
        if a >= b:
            return "a>=b accepted"
        if snap_tier(tier) != before:
            return "receiver mutated"
        ee, lo, hi2 = R.erase_points(ents, 0.0, hi, a, b, shrink)
        if tuples(r.entries) != ee:
            return "entries differ"
        if r.minTimestamp != lo or r.maxTimestamp != hi2:
            return "span differs"
        return True

    return Ob(
        "perase-k%d-%s" % (k, "shrink" if shrink else "noshrink"),
        F(*names),
        body,
        pre,
        fmode="real",
        timeout=timeout,
        canaries=[
            {
                "target": "praatio.data_classes.point_tier:PointTier.crop",
                "find": "timestamp >= cropStart and timestamp <= cropEnd",
                "replace": "timestamp >= cropStart and timestamp < cropEnd",
            }
        ]
        if (not shrink and k == 2)  # attached to the non-shrinking obligation (the shrinking one does not kill it)
        else [],
        funcs=FUNCS[2:3],
        bounds="k=%d points, region anywhere in the span incl. a>=b" % k,
    )


def ob_tg_erase(shrink, timeout):
    names = ["a", "b", "hi", "s0", "e0", "t0", "H"]

    def pre(a, b, hi, s0, e0, t0, H):
        return ivs_wf_pre(0.0, hi, s0, e0) & within(0.0, hi, t0, a, b) & (hi <= H) & (H <= 1024.0) & sep(a, b, hi, 0.0, s0, e0, t0, H)

    def body(a, b, hi, s0, e0, t0, H):
        tg = Textgrid(0.0, H)  # the textgrid may be longer than its tiers
        tg.addTier(IntervalTier("i", [Interval(s0, e0, "x")], 0.0, hi))
        tg.addTier(PointTier("p", [Point(t0, "q")], 0.0, hi))
        tg.addTier(IntervalTier("empty", [], 0.0, hi))
        tg.addTier(PointTier("emptyp", [], 0.0, hi))
        before = snap_tg(tg)
        try:
            r = tg.eraseRegion(a, b, shrink)
        except errors.ArgumentError:
            return True if a >= b else "ArgumentError for a<b"
        if a >= b:
            return "a>=b accepted"
        if snap_tg(tg) != before:
            return "receiver mutated"
        if r.tierNames != ("i", "p", "empty", "emptyp"):
            return "names/order"
        ei, lo, hi2 = R.erase_intervals([(s0, e0, "x")], 0.0, hi, a, b, "truncate", shrink)
        ep, _, _ = R.erase_points([(t0, "q")], 0.0, hi, a, b, shrink)
        ri, rp = r.getTier("i"), r.getTier("p")
        if tuples(ri.entries) != ei or tuples(rp.entries) != ep:
            return "tier entries differ from per-tier eraseRegion"
        for t in (ri, rp, r.getTier("empty"), r.getTier("emptyp")):
            if (t.minTimestamp, t.maxTimestamp) != (lo, hi2):
                return "span"
        if (r.minTimestamp, r.maxTimestamp) != (0.0, (H - (b - a)) if shrink else H):
            return "textgrid span: end decreases by exactly b-a when shrinking, unchanged otherwise"
        if H == hi and not r.validate("silence"):
            return "validate false"
        return True

    return Ob(
        "tgerase-%s" % ("shrink" if shrink else "noshrink"),
        F(*names),
        body,
        pre,
        fmode="real",
        timeout=timeout,
        funcs=FUNCS,
        bounds="4 tiers (1 interval, 1 point, 2 empty), region in span incl. a>=b",
    )


def ob_overlap_ieee(k, timeout):
    """binary64: 'error' mode raises CollisionError exactly when an interval overlaps the region
    by a positive length (no tolerance in the overlap test)"""
    names = ["a", "b", "hi"] + _ts(k)

    def pre(a, b, hi, *ts):
        return ivs_wf_pre(0.0, hi, *ts) & within(0.0, hi, a, b) & (a < b) & finite(hi)

    def body(a, b, hi, *ts):
        tier = IntervalTier("t", mk_ivs(ts), 0.0, hi)
        hit = any(not (ts[2 * i + 1] <= a or ts[2 * i] >= b) for i in range(k))
        try:
            tier.eraseRegion(a, b, "error", False)
        except errors.CollisionError:
            return True if hit else "CollisionError although nothing overlaps the region"
        return "overlap not reported" if hit else True

    return Ob("ierase-overlap-ieee-k%d" % k, F(*names), body, pre, fmode="ieee", timeout=timeout, funcs=FUNCS[:2], bounds="k=%d intervals, all binary64 timestamps (overlap by one ulp included)" % k)


def obligations(tier):
    obs = []
    if tier == "quick":
        for mode in MODES:
            for shrink in (True, False):
                obs.append(ob_interval_erase(2, mode, shrink, 240))
        obs.append(ob_interval_erase(2, "truncate", True, 240, labels=["x", "x"], tag="-samelabel"))
        for shrink in (True, False):
            obs.append(ob_point_erase(2, shrink, 120))
            obs.append(ob_tg_erase(shrink, 240))
        obs.append(ob_overlap_ieee(1, 300))
    else:
        for k in (1, 2, 3):
            obs.append(ob_overlap_ieee(k, 900))
        for mode in MODES:
            for shrink in (True, False):
                for k in (0, 1, 2, 3):
                    obs.append(ob_interval_erase(k, mode, shrink, 2400))
        obs.append(ob_interval_erase(2, "truncate", True, 900, labels=["x", "x"], tag="-samelabel"))
        obs.append(ob_interval_erase(3, "truncate", True, 2400, labels=["x", "y", "x"], tag="-xyx"))
        for shrink in (True, False):
            for k in (0, 1, 2, 3):
                obs.append(ob_point_erase(k, shrink, 900))
            obs.append(ob_tg_erase(shrink, 900))
    from harness import fp_kernels

    obs += fp_kernels.c07_obligations(tier)
    obs += fp_kernels.c12_obligations(tier)
    return obs
