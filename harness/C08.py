"""C08 - insertSpace opens exactly the requested gap and eraseRegion undoes it."""
from engine.hlib import *  # noqa
from oracle import tier_ref as R

from praatio.data_classes.interval_tier import IntervalTier
from praatio.data_classes.point_tier import PointTier
from praatio.data_classes.textgrid import Textgrid
from praatio.utilities.constants import Interval, Point
from praatio.utilities import errors

MODES = ["stretch", "split", "no_change", "error"]
FUNCS = [
    "praatio.data_classes.interval_tier.IntervalTier.insertSpace",
    "praatio.data_classes.point_tier.PointTier.insertSpace",
    "praatio.data_classes.textgrid.Textgrid.insertSpace",
    "praatio.data_classes.interval_tier.IntervalTier.eraseRegion",
]
ASSUMPTIONS = ["real mode: timestamps and the gap are equal or >= 2^-16 apart and <= 1024"]


def _ts(k):
    return [n for i in range(k) for n in ("s%d" % i, "e%d" % i)]


def ob_interval_space(k, mode, timeout):
    names = ["s", "d", "hi"] + _ts(k)

    def pre(s, d, hi, *ts):
        return ivs_wf_pre(0.0, hi, *ts) & within(0.0, hi, s) & (hi <= 1024.0) & (d > 0) & (d <= 1024.0)

    def body(s, d, hi, *ts):
        ents = [(ts[2 * i], ts[2 * i + 1], LABELS[i]) for i in range(k)]
        tier = IntervalTier("t", mk_ivs(ts), 0.0, hi)
        before = snap_tier(tier)
        exp = R.insert_space_intervals(ents, 0.0, hi, s, d, mode)
        try:
            r = tier.insertSpace(s, d, mode)
        except errors.PraatioException as e:
            if isinstance(e, errors.TextgridStateError):
                return "TextgridStateError"
            if snap_tier(tier) != before:
                return "mutated-on-error"
            return True if exp == ("error",) else "unexpected " + type(e).__name__
        if exp == ("error",):
            return "straddle not rejected in error mode"
        if snap_tier(tier) != before:
            return "receiver mutated"
        ee, lo, hi2 = exp
        if tuples(r.entries) != ee:
            return "entries differ"
        if r.minTimestamp != lo or r.maxTimestamp != hi2:
            return "span differs"
        return True

    canaries = []
    if k == 2 and mode == "stretch":
        canaries = [
            {
                "target": "praatio.data_classes.interval_tier:IntervalTier.insertSpace",
                "find": "elif interval.start >= start:",
                "replace": "elif interval.start > start:",
            }
        ]
    if k == 2 and mode == "split":
        canaries = [
            {
                "target": "praatio.data_classes.interval_tier:IntervalTier.insertSpace",
                "find": "if interval.end <= start:",
                "replace": "if interval.end < start:",
            }
        ]
    return Ob(
        "ispace-k%d-%s" % (k, mode),
        F(*names),
        body,
        pre,
        fmode="real",
        timeout=timeout,
        canaries=canaries,
        funcs=FUNCS[:1],
        bounds="k=%d intervals, s anywhere in the span [0,hi<=1024], 0<d<=1024" % k,
    )


def ob_point_space(k, timeout):
    names = ["s", "d", "hi"] + ["t%d" % i for i in range(k)]

    def pre(s, d, hi, *ts):
        return pts_wf_pre(0.0, hi, *ts) & within(0.0, hi, s) & (hi <= 1024.0) & (d > 0) & (d <= 1024.0)

    def body(s, d, hi, *ts):
        ents = [(ts[i], LABELS[i]) for i in range(k)]
        tier = PointTier("p", [Point(t, l) for t, l in ents], 0.0, hi)
        before = snap_tier(tier)
        r = tier.insertSpace(s, d, "stretch")
        if snap_tier(tier) != before:
            return "receiver mutated"
        ee, lo, hi2 = R.insert_space_points(ents, 0.0, hi, s, d)
        if tuples(r.entries) != ee:
            return "entries differ"
        if r.minTimestamp != lo or r.maxTimestamp != hi2:
            return "span differs"
        return True

    return Ob(
        "pspace-k%d" % k,
        F(*names),
        body,
        pre,
        fmode="real",
        timeout=timeout,
        canaries=[
            {
                "target": "praatio.data_classes.point_tier:PointTier.insertSpace",
                "find": "if point.time <= start:",
                "replace": "if point.time < start:",
            }
        ]
        if k == 2
        else [],
        funcs=FUNCS[1:2],
        bounds="k=%d points" % k,
    )


def ob_tg_space(mode, timeout):
    names = ["s", "d", "hi", "s0", "e0", "t0", "ph"]

    def pre(s, d, hi, s0, e0, t0, ph):
        return ivs_wf_pre(0.0, hi, s0, e0) & within(0.0, hi, s, ph) & within(0.0, ph, t0) & (hi <= 1024.0) & (d > 0) & (d <= 1024.0)

    def body(s, d, hi, s0, e0, t0, ph):
        tg = Textgrid(0.0, hi)
        tg.addTier(IntervalTier("i", [Interval(s0, e0, "x")], 0.0, hi))
        tg.addTier(PointTier("p", [Point(t0, "q")], 0.0, ph))  # a tier may end before the textgrid does
        tg.addTier(IntervalTier("empty", [], 0.0, hi))
        before = snap_tg(tg)
        exp = R.insert_space_intervals([(s0, e0, "x")], 0.0, hi, s, d, mode)
        try:
            r = tg.insertSpace(s, d, mode)
        except errors.PraatioException as e:
            if isinstance(e, errors.TextgridStateError):
                return "TextgridStateError"
            if snap_tg(tg) != before:
                return "mutated-on-error"
            return True if exp == ("error",) else "unexpected " + type(e).__name__
        if exp == ("error",):
            return "straddle not rejected"
        if snap_tg(tg) != before:
            return "receiver mutated"
        if r.tierNames != ("i", "p", "empty"):
            return "names/order"
        ei, lo, hi2 = exp
        ep, _, _ = R.insert_space_points([(t0, "q")], 0.0, hi, s, d)
        if tuples(r.getTier("i").entries) != ei or tuples(r.getTier("p").entries) != ep:
            return "tier entries differ from per-tier insertSpace"
        if tuples(r.getTier("empty").entries) != []:
            return "empty tier"
        for t in (r.getTier("i"), r.getTier("empty"), r):
            if (t.minTimestamp, t.maxTimestamp) != (lo, hi2):
                return "span"
        if (r.getTier("p").minTimestamp, r.getTier("p").maxTimestamp) != (0.0, ph + d):
            return "every tier's span is lengthened by exactly d"
        if ph == hi and not r.validate("silence"):
            return "validate false"
        return True

    return Ob(
        "tgspace-%s" % mode,
        F(*names),
        body,
        pre,
        fmode="real",
        timeout=timeout,
        funcs=FUNCS[:3],
        bounds="3 tiers (1 interval, 1 point, 1 empty interval tier)",
    )


def ob_tg_own_span(timeout):
    """the textgrid's own span (which may start before and end after every tier it holds, or
    hold no tier at all) is lengthened by exactly d: start unchanged, end + d"""
    names = ["s", "d", "H", "tl", "th", "s0", "e0"]

    def pre(s, d, H, tl, th, s0, e0):
        return ivs_wf_pre(tl, th, s0, e0) & (0.0 <= tl) & (th <= H) & within(0.0, H, s) & (H <= 1024.0) & (d > 0) & (d <= 1024.0)

    def body(s, d, H, tl, th, s0, e0):
        empty = Textgrid(0.0, H)
        r0 = empty.insertSpace(s, d, "stretch")
        if (r0.minTimestamp, r0.maxTimestamp) != (0.0, H + d) or len(r0.tiers) != 0:
            return "textgrid without tiers: span is not [0, H+d]"
        tg = Textgrid(0.0, H)
        tg.addTier(IntervalTier("i", [Interval(s0, e0, "x")], tl, th))
        tg.addTier(PointTier("p", [Point(s0, "q")], tl, th))
        r = tg.insertSpace(s, d, "stretch")
        if (r.minTimestamp, r.maxTimestamp) != (0.0, H + d):
            return "textgrid span is not [start, end + d]"
        for t in r.tiers:
            if (t.minTimestamp, t.maxTimestamp) != (tl, th + d):
                return "tier span is not [start, end + d]"
        return True

    return Ob("tgspace-own-span", F(*names), body, pre, fmode="real", timeout=timeout, funcs=FUNCS[:3], bounds="textgrid [0,H] holding tiers that span [tl,th] inside it, and a textgrid without tiers")


def ob_roundtrip(k, mode, timeout, labels=LABELS, tag="", scale=None):
    """insertSpace(s,d,mode) ; eraseRegion(s,s+d,'truncate',doShrink) restores the
    label-at-every-time function and the span (stretch/split).
    scale: None = arbitrary reals 2^-16 apart; a number = every time is a small integer times
    `scale` (exact dyadic grid of tiny magnitudes, e.g. 2^-60)"""
    names = ["s", "d", "hi"] + _ts(k)
    if scale is not None:
        def pre_grid(s, d, hi, *ts):
            return bool(ivs_wf_pre(0, hi, *ts)) and 0 <= s <= hi <= 9 and 1 <= d <= 4

        def body_grid(s, d, hi, *ts):
            s, d, hi, ts = s * scale, d * scale, hi * scale, [t * scale for t in ts]
            ents = [(ts[2 * i], ts[2 * i + 1], labels[i]) for i in range(k)]
            tier = IntervalTier("t", mk_ivs(ts, labels), 0.0, hi)
            r = tier.insertSpace(s, d, mode).eraseRegion(s, s + d, "truncate", True)
            if (r.minTimestamp, r.maxTimestamp) != (0.0, hi):
                return "span not restored"
            got = tuples(r.entries)
            for c0, c1 in R.cells(0.0, hi, s, *ts):
                if R.label_at(got, c0, c1) != R.label_at(ents, c0, c1):
                    return "label-at-time differs"
            return True if wf_interval(r) else "ill-formed"

        return Ob("roundtrip-k%d-%s%s-grid" % (k, mode, tag), I(*names), body_grid, pre_grid, fmode="real", timeout=timeout, funcs=[FUNCS[0], FUNCS[3]], bounds="k=%d intervals; every time is k * %r with k an integer in 0..9 (tiny magnitudes, exact)" % (k, scale))

    def pre(s, d, hi, *ts):
        return (
            ivs_wf_pre(0.0, hi, *ts)
            & within(0.0, hi, s)
            & (hi <= 512.0)
            & (d > 0)
            & (d <= 512.0)
            & sep(s, d, hi, 0.0, *ts)
            & sep(s + d, hi, 0.0, *ts)
        )

    def body(s, d, hi, *ts):
        ents = [(ts[2 * i], ts[2 * i + 1], labels[i]) for i in range(k)]
        tier = IntervalTier("t", mk_ivs(ts, labels), 0.0, hi)
        r = tier.insertSpace(s, d, mode).eraseRegion(s, s + d, "truncate", True)
        if (r.minTimestamp, r.maxTimestamp) != (0.0, hi):
            return "span not restored"
        got = tuples(r.entries)
        for c0, c1 in R.cells(0.0, hi, s, *ts):
            if R.label_at(got, c0, c1) != R.label_at(ents, c0, c1):
                return "label-at-time differs"
        if not wf_interval(r):
            return "ill-formed"
        return True

    return Ob(
        "roundtrip-k%d-%s%s" % (k, mode, tag),
        F(*names),
        body,
        pre,
        fmode="real",
        timeout=timeout,
        funcs=[FUNCS[0], FUNCS[3]],
        bounds="k=%d intervals; exact reals; 2^-16 separation (also of s+d)" % k,
    )


def obligations(tier):
    obs = []
    if tier == "quick":
        for mode in MODES:
            obs.append(ob_interval_space(2, mode, 120))
        obs.append(ob_point_space(2, 60))
        obs.append(ob_tg_space("stretch", 180))
        obs.append(ob_tg_space("error", 180))
        obs.append(ob_tg_own_span(200))
        for mode in ("stretch", "split"):
            obs.append(ob_roundtrip(2, mode, 300))
        obs.append(ob_roundtrip(3, "stretch", 600, labels=["x", "x", "y"], tag="-xxy"))
        obs.append(ob_roundtrip(2, "stretch", 300, labels=["x", "x"], tag="-xx", scale=2.0 ** -60))
    else:
        obs.append(ob_roundtrip(2, "stretch", 900, labels=["x", "x"], tag="-xx", scale=2.0 ** -60))
        obs.append(ob_roundtrip(3, "stretch", 900, labels=["x", "x", "y"], tag="-xxy", scale=2.0 ** -60))
        obs.append(ob_roundtrip(3, "stretch", 3000, labels=["x", "x", "y"], tag="-xxy"))
        obs.append(ob_roundtrip(3, "split", 3000, labels=["x", "y", "y"], tag="-xyy"))
        for mode in MODES:
            for k in (0, 1, 2, 3):
                obs.append(ob_interval_space(k, mode, 900))
            obs.append(ob_tg_space(mode, 900))
        obs.append(ob_tg_own_span(900))
        for k in (0, 1, 2, 3):
            obs.append(ob_point_space(k, 600))
        for mode in ("stretch", "split"):
            for k in (1, 2, 3):
                obs.append(ob_roundtrip(k, mode, 2400))
    from harness import fp_kernels

    obs += fp_kernels.c08_obligations(tier)
    # the round-trip clause depends on eraseRegion's shrink arithmetic
    obs += [o for o in fp_kernels.c07_obligations("quick")]
    return obs
