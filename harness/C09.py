"""C09 - time shifting and concatenation move every entry by exactly the stated amount."""
from engine.hlib import *  # noqa
from oracle import tier_ref as R

from praatio.data_classes.interval_tier import IntervalTier
from praatio.data_classes.point_tier import PointTier
from praatio.data_classes.textgrid import Textgrid
from praatio.utilities.constants import Interval, Point
from praatio.utilities import errors, utils

FUNCS = [
    "praatio.data_classes.interval_tier.IntervalTier.editTimestamps",
    "praatio.data_classes.point_tier.PointTier.editTimestamps",
    "praatio.data_classes.textgrid_tier.TextgridTier.appendTier",
    "praatio.data_classes.textgrid.Textgrid.appendTextgrid",
    "praatio.data_classes.textgrid.Textgrid.editTimestamps",
    "praatio.utilities.utils.checkIsUndershoot/checkIsOvershoot/getErrorReporter",
]
ASSUMPTIONS = ["environment stub: praatio.utilities.utils.print is bound to a recorder (observes reportingMode='warning')"]

PRINTED = []


def _setup():
    def rec(*a, **k):
        PRINTED.append(1)

    utils.print = rec

    def undo():
        try:
            del utils.print
        except AttributeError:
            pass

    return undo


def _ts(k):
    return [n for i in range(k) for n in ("s%d" % i, "e%d" % i)]


def ob_shift_interval(k, rmode, timeout):
    names = ["off", "lo", "hi"] + _ts(k)

    def pre(off, lo, hi, *ts):
        return ivs_wf_pre(lo, hi, *ts) & (0.0 <= lo) & (lo <= hi) & (hi <= 512.0) & within(-1024.0, 1024.0, off)

    def body(off, lo, hi, *ts):
        ents = [(ts[2 * i], ts[2 * i + 1], LABELS[i]) for i in range(k)]
        tier = IntervalTier("t", mk_ivs(ts), lo, hi)
        before = snap_tier(tier)
        ee, nlo, nhi, left = R.shift_intervals(ents, lo, hi, off)
        del PRINTED[:]
        try:
            r = tier.editTimestamps(off, rmode)
        except errors.OutOfBounds:
            if snap_tier(tier) != before:
                return "mutated-on-error"
            return True if (rmode == "error" and left) else "unexpected OutOfBounds"
        if rmode == "error" and left:
            return "leaving the span not reported in error mode"
        if rmode == "warning" and (len(PRINTED) > 0) != left:
            return "warning message iff leaving the span"
        if rmode == "silence" and PRINTED:
            return "message in silence mode"
        if snap_tier(tier) != before:
            return "receiver mutated"
        if tuples(r.entries) != ee:
            return "entries differ"
        if (r.minTimestamp, r.maxTimestamp) != (nlo, nhi):
            return "span differs"
        return True

    canaries = []
    if k == 2 and rmode == "silence":
        canaries = [
            {"target": "praatio.data_classes.interval_tier:IntervalTier.editTimestamps", "find": "if newEnd <= 0:", "replace": "if newEnd < 0:"},
        ]
    if k == 2 and rmode == "error":
        canaries = [
            {"target": "praatio.utilities.utils:checkIsOvershoot", "find": "if time > referenceTime:", "replace": "if time >= referenceTime:"},
        ]
    return Ob(
        "ishift-k%d-%s" % (k, rmode),
        F(*names),
        body,
        pre,
        fmode="real",
        timeout=timeout,
        setup=_setup,
        canaries=canaries,
        funcs=[FUNCS[0], FUNCS[5]],
        bounds="k=%d intervals, span [lo,hi] in [0,512], offset in [-1024,1024]" % k,
    )


def ob_shift_point(k, rmode, timeout):
    names = ["off", "lo", "hi"] + ["t%d" % i for i in range(k)]

    def pre(off, lo, hi, *ts):
        return pts_wf_pre(lo, hi, *ts) & (0.0 <= lo) & (lo <= hi) & (hi <= 512.0) & within(-1024.0, 1024.0, off)

    def body(off, lo, hi, *ts):
        ents = [(ts[i], LABELS[i]) for i in range(k)]
        tier = PointTier("p", [Point(t, l) for t, l in ents], lo, hi)
        before = snap_tier(tier)
        ee, nlo, nhi, left = R.shift_points(ents, lo, hi, off)
        del PRINTED[:]
        try:
            r = tier.editTimestamps(off, rmode)
        except errors.OutOfBounds:
            if snap_tier(tier) != before:
                return "mutated-on-error"
            return True if (rmode == "error" and left) else "unexpected OutOfBounds"
        if rmode == "error" and left:
            return "leaving the span not reported in error mode"
        if rmode == "warning" and (len(PRINTED) > 0) != left:
            return "warning message iff leaving the span"
        if snap_tier(tier) != before:
            return "receiver mutated"
        if tuples(r.entries) != ee:
            return "entries differ"
        if (r.minTimestamp, r.maxTimestamp) != (nlo, nhi):
            return "span differs"
        return True

    return Ob(
        "pshift-k%d-%s" % (k, rmode),
        F(*names),
        body,
        pre,
        fmode="real",
        timeout=timeout,
        setup=_setup,
        canaries=[{"target": "praatio.data_classes.point_tier:PointTier.editTimestamps", "find": "if newTimestamp < 0:", "replace": "if newTimestamp <= 0:"}] if (k == 2 and rmode == "silence") else [],
        funcs=[FUNCS[1], FUNCS[5]],
        bounds="k=%d points" % k,
    )


def ob_there_and_back(k, timeout):
    names = ["off", "hi"] + _ts(k)

    def pre(off, hi, *ts):
        return ivs_wf_pre(0.0, hi, *ts) & (hi <= 512.0) & (0.0 <= off) & (off <= 512.0)

    def body(off, hi, *ts):
        tier = IntervalTier("t", mk_ivs(ts), 0.0, hi)
        r = tier.editTimestamps(off, "silence").editTimestamps(-off, "silence")
        if tuples(r.entries) != tuples(tier.entries):
            return "+x then -x does not restore the entries"
        return True

    return Ob("ishift-roundtrip-k%d" % k, F(*names), body, pre, fmode="real", timeout=timeout, setup=_setup, funcs=FUNCS[:1], bounds="k=%d, 0<=x<=512, exact reals" % k)


def ob_append_tier(kind, ka, kb, timeout):
    if kind == "interval":
        na = ["a" + n for n in _ts(ka)]
        nb = ["b" + n for n in _ts(kb)]
    else:
        na = ["at%d" % i for i in range(ka)]
        nb = ["bt%d" % i for i in range(kb)]
    names = ["hia", "hib", "loa", "lob"] + na + nb

    def pre(hia, hib, loa, lob, *ts):
        A, B = ts[: len(na)], ts[len(na):]
        if kind == "interval":
            ok = ivs_wf_pre(loa, hia, *A) & ivs_wf_pre(lob, hib, *B)
        else:
            ok = pts_wf_pre(loa, hia, *A) & pts_wf_pre(lob, hib, *B)
        return ok & (hia <= 512.0) & (hib <= 512.0) & (0.0 <= loa) & (0.0 <= lob) & (loa <= hia) & (lob <= hib)

    def body(hia, hib, loa, lob, *ts):
        # either tier may start after 0 (e.g. the result of a crop without rebasing)
        A, B = ts[: len(na)], ts[len(na):]
        if kind == "interval":
            ea = [(A[2 * i], A[2 * i + 1], LABELS[i]) for i in range(ka)]
            eb = [(B[2 * i], B[2 * i + 1], LABELS[2 + i]) for i in range(kb)]
            ta = IntervalTier("a", [Interval(*e) for e in ea], loa, hia)
            tb = IntervalTier("b", [Interval(*e) for e in eb], lob, hib)
            exp = ea + [(s + hia, e + hia, l) for (s, e, l) in eb]
        else:
            ea = [(A[i], LABELS[i]) for i in range(ka)]
            eb = [(B[i], LABELS[2 + i]) for i in range(kb)]
            ta = PointTier("a", [Point(*e) for e in ea], loa, hia)
            tb = PointTier("b", [Point(*e) for e in eb], lob, hib)
            exp = ea + [(t + hia, l) for (t, l) in eb]
        sa, sb = snap_tier(ta), snap_tier(tb)
        r = ta.appendTier(tb)
        if snap_tier(ta) != sa or snap_tier(tb) != sb:
            return "operand mutated"
        if tuples(r.entries) != exp:
            return "entries differ"
        if (r.minTimestamp, r.maxTimestamp) != (loa, hia + hib):
            return "span differs: it starts where A starts and ends at the sum of both end times"
        if r.name != "a" or type(r) is not type(ta):
            return "name/type"
        return True

    return Ob("append-%s-%dx%d" % (kind, ka, kb), F(*names), body, pre, fmode="real", timeout=timeout, setup=_setup, funcs=FUNCS[2:3] + FUNCS[:2], bounds="%s tiers with %d and %d entries" % (kind, ka, kb))


def ob_append_mixed(timeout):
    def body(t0, hi):
        ta = IntervalTier("a", [], 0.0, hi)
        tb = PointTier("b", [Point(t0, "x")], 0.0, hi)
        try:
            ta.appendTier(tb)
        except errors.ArgumentError:
            return True
        return "mixed tier types accepted"

    return Ob("append-mixed-types", F("t0", "hi"), body, lambda t0, hi: (0.0 <= t0) & (t0 <= hi) & (hi <= 512.0), fmode="real", timeout=timeout, funcs=FUNCS[2:3], bounds="interval tier + point tier")


def ob_append_tg(namesA, namesB, only, timeout):
    """A has one interval tier per name in namesA (1 entry each, tier span [0,ta<=hia]),
    B likewise; names concrete, times symbolic."""
    pa = [p for i in range(len(namesA)) for p in ("as%d" % i, "ae%d" % i, "am%d" % i)]
    pb = [p for i in range(len(namesB)) for p in ("bs%d" % i, "be%d" % i)]
    names = ["hia", "hib"] + pa + pb

    def pre(hia, hib, *ts):
        A, B = ts[: len(pa)], ts[len(pa):]
        ok = (0.0 <= hia) & (hia <= 512.0) & (0.0 <= hib) & (hib <= 512.0)
        for i in range(len(namesA)):
            s, e, m = A[3 * i: 3 * i + 3]
            ok = ok & (0.0 <= s) & (s < e) & (e <= m) & (m <= hia)
        for i in range(len(namesB)):
            s, e = B[2 * i: 2 * i + 2]
            ok = ok & (0.0 <= s) & (s < e) & (e <= hib)
        return ok

    def body(hia, hib, *ts):
        A, B = ts[: len(pa)], ts[len(pa):]
        tgA = Textgrid(0.0, hia)
        entA = {}
        for i, n in enumerate(namesA):
            s, e, m = A[3 * i: 3 * i + 3]
            tgA.addTier(IntervalTier(n, [Interval(s, e, "A" + n)], 0.0, m))
            entA[n] = [(s, e, "A" + n)]
        tgB = Textgrid(0.0, hib)
        entB = {}
        for i, n in enumerate(namesB):
            s, e = B[2 * i: 2 * i + 2]
            tgB.addTier(IntervalTier(n, [Interval(s, e, "B" + n)], 0.0, hib))
            entB[n] = [(s, e, "B" + n)]
        sa, sb = snap_tg(tgA), snap_tg(tgB)
        del PRINTED[:]
        r = tgA.appendTextgrid(tgB, only)
        if snap_tg(tgA) != sa or snap_tg(tgB) != sb:
            return "operand mutated"
        if (r.minTimestamp, r.maxTimestamp) != (0.0, hia + hib):
            return "textgrid span"
        if only:
            want = [n for n in namesA if n in namesB]
        else:
            want = list(namesA) + [n for n in namesB if n not in namesA]
        if list(r.tierNames) != want:
            return "tier set/order"
        for n in want:
            exp = list(entA.get(n, [])) + [(s + hia, e + hia, l) for (s, e, l) in entB.get(n, [])]
            if tuples(r.getTier(n).entries) != exp:
                return "entries of tier " + n
            if n in namesB and r.getTier(n).maxTimestamp != hia + hib:
                return "span of appended tier " + n
        return True

    return Ob(
        "appendtg-%s+%s-%s" % ("".join(namesA), "".join(namesB), "only" if only else "all"),
        F(*names),
        body,
        pre,
        fmode="real",
        timeout=timeout,
        setup=_setup,
        funcs=FUNCS[3:4] + FUNCS[:1],
        bounds="textgrids with tiers %s and %s, one interval each; A's tiers may end before A's span" % (namesA, namesB),
    )


def ob_append_tg_point_seam(only, timeout):
    """a point tier present in both textgrids: A's points unchanged followed by B's shifted by
    A's end - also when a point of A sits on A's end and a point of B on 0 (same time after
    the shift: both are kept)"""
    names = ["hia", "hib", "ta", "tb"]

    def pre(hia, hib, ta, tb):
        return within(0.0, hia, ta) & within(0.0, hib, tb) & within(0.0, 512.0, hia, hib)

    def body(hia, hib, ta, tb):
        A = Textgrid(0.0, hia)
        A.addTier(PointTier("p", [Point(ta, "x")], 0.0, hia))
        B = Textgrid(0.0, hib)
        B.addTier(PointTier("p", [Point(tb, "y")], 0.0, hib))
        r = A.appendTextgrid(B, only)
        if list(r.tierNames) != ["p"]:
            return "tier names"
        if tuples(r.getTier("p").entries) != [(ta, "x"), (tb + hia, "y")]:
            return "A's points unchanged followed by B's points shifted by A's end"
        return True

    return Ob("appendtg-point-seam-%s" % ("only" if only else "all"), F(*names), body, pre, fmode="real", timeout=timeout, setup=_setup, funcs=FUNCS[3:4], bounds="one point tier in both textgrids, one point each anywhere incl. A's end / B's start")


def ob_append_tg_empty(only, timeout):
    """tiers without entries take part in appendTextgrid like any other tier"""
    names = ["hia", "hib", "s0", "e0"]

    def pre(hia, hib, s0, e0):
        return (0.0 <= s0) & (s0 < e0) & (e0 <= hib) & within(0.0, 512.0, hia, hib)

    def body(hia, hib, s0, e0):
        A = Textgrid(0.0, hia)
        A.addTier(IntervalTier("both", [], 0.0, hia))
        A.addTier(IntervalTier("emptyA", [], 0.0, hia))
        A.addTier(IntervalTier("emptyboth", [], 0.0, hia))
        B = Textgrid(0.0, hib)
        B.addTier(IntervalTier("both", [Interval(s0, e0, "y")], 0.0, hib))
        B.addTier(PointTier("emptyB", [], 0.0, hib))
        B.addTier(IntervalTier("emptyboth", [], 0.0, hib))
        r = A.appendTextgrid(B, only)
        want = ["both", "emptyboth"] if only else ["both", "emptyA", "emptyboth", "emptyB"]
        if list(r.tierNames) != want:
            return "tier set/order with empty tiers"
        if tuples(r.getTier("both").entries) != [(s0 + hia, e0 + hia, "y")]:
            return "entries appended to an empty tier are shifted by A's end"
        for n in want:
            t = r.getTier(n)
            if n in ("both", "emptyboth", "emptyB") and t.maxTimestamp != hia + hib:
                return "span of tier " + n
            if n in ("emptyA", "emptyboth") and len(t.entries) != 0:
                return "empty tier gained entries"
        if not only and not isinstance(r.getTier("emptyB"), PointTier):
            return "tier type"
        return True

    return Ob("appendtg-empty-tiers-%s" % ("only" if only else "all"), F(*names), body, pre, fmode="real", timeout=timeout, setup=_setup, funcs=FUNCS[3:4], bounds="A: three empty tiers; B: one tier with an entry, two empty (one of them a point tier)")


def ob_span_tests_ieee(timeout):
    """binary64: leaving the span is tested exactly (no tolerance): an entry that moves past
    the old boundary by one ulp is reported"""

    def body(t, ref):
        calls = []

        def rep(exc, text):
            calls.append(exc)

        o = utils.checkIsOvershoot(t, ref, rep)
        u = utils.checkIsUndershoot(t, ref, rep)
        if o != (t > ref) or u != (t < ref):
            return "overshoot/undershoot test is not exact"
        if len(calls) != (1 if t != ref else 0) or any(c is not errors.OutOfBounds for c in calls):
            return "reporter called iff the time leaves the span"
        return True

    return Ob("span-tests-exact-ieee", F("t", "ref"), body, lambda t, ref: finite(t, ref), fmode="ieee", timeout=timeout, funcs=FUNCS[5:6], bounds="all finite binary64 pairs")


def ob_tg_shift(rmode, timeout):
    names = ["off", "hi", "s0", "e0", "t0"]

    def pre(off, hi, s0, e0, t0):
        return ivs_wf_pre(0.0, hi, s0, e0) & within(0.0, hi, t0) & (hi <= 512.0) & within(-1024.0, 1024.0, off)

    def body(off, hi, s0, e0, t0):
        tg = Textgrid(0.0, hi)
        tg.addTier(IntervalTier("i", [Interval(s0, e0, "x")], 0.0, hi))
        tg.addTier(PointTier("p", [Point(t0, "q")], 0.0, hi))
        tg.addTier(PointTier("empty", [], 0.0, hi))
        before = snap_tg(tg)
        ei, lo_i, hi_i, left_i = R.shift_intervals([(s0, e0, "x")], 0.0, hi, off)
        ep, lo_p, hi_p, left_p = R.shift_points([(t0, "q")], 0.0, hi, off)
        del PRINTED[:]
        try:
            r = tg.editTimestamps(off, rmode)
        except (errors.OutOfBounds, errors.TextgridStateAutoModified):
            if snap_tg(tg) != before:
                return "mutated-on-error"
            return True if (rmode == "error" and (left_i or left_p)) else "unexpected error"
        if rmode == "error" and (left_i or left_p):
            return "not reported"
        if rmode == "silence" and len(PRINTED) != 0:
            return "something was reported although reportingMode is 'silence'"
        if rmode == "warning" and (len(PRINTED) != 0) != bool(left_i or left_p):
            return "a warning is printed exactly when an entry leaves the old span"
        if snap_tg(tg) != before:
            return "receiver mutated"
        if r.tierNames != ("i", "p", "empty"):
            return "names/order"
        if tuples(r.getTier("i").entries) != ei or tuples(r.getTier("p").entries) != ep:
            return "tier entries differ from per-tier editTimestamps"
        if r.minTimestamp != 0.0 or r.maxTimestamp != max(hi, hi_i, hi_p):
            return "textgrid span"
        return True

    return Ob("tgshift-%s" % rmode, F(*names), body, pre, fmode="real", timeout=timeout, setup=_setup, funcs=FUNCS[4:5] + FUNCS[:2], bounds="3 tiers (interval k=1, point k=1, empty)")


def obligations(tier):
    obs = []
    if tier == "quick":
        for rm in ("silence", "warning", "error"):
            obs.append(ob_shift_interval(2, rm, 120))
            obs.append(ob_shift_point(2, rm, 120))
        obs.append(ob_shift_interval(0, "silence", 60))
        obs.append(ob_there_and_back(2, 120))
        obs.append(ob_append_tier("interval", 2, 2, 120))
        obs.append(ob_append_tier("point", 2, 2, 120))
        obs.append(ob_append_tier("interval", 0, 1, 60))
        obs.append(ob_append_mixed(30))
        for only in (True, False):
            obs.append(ob_append_tg(["a", "b"], ["b", "c"], only, 240))
        obs.append(ob_append_tg(["a"], ["a"], False, 120))
        for only in (True, False):
            obs.append(ob_append_tg_empty(only, 120))
            obs.append(ob_append_tg_point_seam(only, 120))
        obs.append(ob_span_tests_ieee(120))
        obs.append(ob_tg_shift("silence", 180))
        obs.append(ob_tg_shift("error", 180))
        obs.append(ob_tg_shift("warning", 180))
    else:
        for rm in ("silence", "warning", "error"):
            for k in (0, 1, 2, 3):
                obs.append(ob_shift_interval(k, rm, 900))
                obs.append(ob_shift_point(k, rm, 900))
            obs.append(ob_tg_shift(rm, 900))
        for k in (1, 2, 3):
            obs.append(ob_there_and_back(k, 600))
        for kind in ("interval", "point"):
            for ka in (0, 1, 2):
                for kb in (0, 1, 2):
                    obs.append(ob_append_tier(kind, ka, kb, 600))
        obs.append(ob_append_mixed(30))
        obs.append(ob_span_tests_ieee(600))
        for only in (True, False):
            obs.append(ob_append_tg_empty(only, 600))
            obs.append(ob_append_tg_point_seam(only, 600))
        for only in (True, False):
            for A, B in ((["a", "b"], ["a", "b"]), (["a", "b"], ["b", "a"]), (["a", "b"], ["b", "c"]), (["a", "b"], ["c", "d"]), (["a"], ["a"]), ([], ["a"]), (["a"], [])):
                obs.append(ob_append_tg(A, B, only, 900))
    from harness import fp_kernels

    obs += fp_kernels.c09_obligations(tier)
    return obs
