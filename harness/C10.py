"""C10 - tier set operations obey the algebra of labelled time."""
from engine.hlib import *  # noqa
from oracle import tier_ref as R

from praatio.data_classes.interval_tier import IntervalTier
from praatio.data_classes.point_tier import PointTier
from praatio.utilities.constants import Interval, Point
from praatio.utilities import errors

FUNCS = [
    "praatio.data_classes.textgrid_tier.TextgridTier.union",
    "praatio.data_classes.interval_tier.IntervalTier.difference",
    "praatio.data_classes.interval_tier.IntervalTier.intersection",
    "praatio.data_classes.interval_tier.IntervalTier.mergeLabels",
    "praatio.data_classes.interval_tier.IntervalTier.insertEntry/eraseRegion/crop/deleteEntry",
    "praatio.data_classes.point_tier.PointTier.insertEntry",
]
ASSUMPTIONS = ["real mode: timestamps equal or >= 2^-16 apart, <= 1024"]
LA = ["x", "y", "z"]
LB = ["p", "q", "r"]


def _ts(k, p):
    return [n for i in range(k) for n in (p + "s%d" % i, p + "e%d" % i)]


def _pre(ka, kb):
    def pre(hi, *ts):
        A, B = ts[: 2 * ka], ts[2 * ka:]
        return ivs_wf_pre(0.0, hi, *A) & ivs_wf_pre(0.0, hi, *B) & (hi <= 1024.0) & sep(0.0, hi, *ts)

    return pre


def _mk(ka, kb, hi, ts):
    A, B = ts[: 2 * ka], ts[2 * ka:]
    ea = [(A[2 * i], A[2 * i + 1], LA[i]) for i in range(ka)]
    eb = [(B[2 * i], B[2 * i + 1], LB[i]) for i in range(kb)]
    ta = IntervalTier("A", [Interval(*e) for e in ea], 0.0, hi)
    tb = IntervalTier("B", [Interval(*e) for e in eb], 0.0, hi)
    return ea, eb, ta, tb


def _components(ea, eb):
    """connected components of the overlap graph (positive-length overlap) over A u B"""
    allv = sorted(ea + eb)
    comps = []
    for v in allv:
        if comps and v[0] < comps[-1]["end"]:
            comps[-1]["items"].append(v)
            if v[1] > comps[-1]["end"]:
                comps[-1]["end"] = v[1]
        else:
            comps.append({"start": v[0], "end": v[1], "items": [v]})
    return [(c["start"], c["end"], "-".join(x[2] for x in sorted(c["items"]))) for c in comps]


def ob_union(ka, kb, timeout):
    names = ["hi"] + _ts(ka, "a") + _ts(kb, "b")

    def body(hi, *ts):
        ea, eb, ta, tb = _mk(ka, kb, hi, ts)
        sa, sb = snap_tier(ta), snap_tier(tb)
        u = ta.union(tb)
        if snap_tier(ta) != sa or snap_tier(tb) != sb:
            return "operand mutated"
        if not wf_interval(u):
            return "ill-formed"
        got = tuples(u.entries)
        for c0, c1 in R.cells(0.0, hi, *ts):
            if R.labelled(got, c0, c1) != (R.labelled(ea, c0, c1) or R.labelled(eb, c0, c1)):
                return "labelled time differs"
        if got != _components(ea, eb):
            return "fused entries/labels differ"
        return True

    return Ob("union-%dx%d" % (ka, kb), F(*names), body, _pre(ka, kb), fmode="real", timeout=timeout, funcs=[FUNCS[0], FUNCS[4]], bounds="A %d intervals, B %d intervals in a common span" % (ka, kb),
              canaries=[{"target": "praatio.data_classes.interval_tier:IntervalTier.insertEntry", "find": "max([tmpInterval.end for tmpInterval in matchList])", "replace": "matchList[-1].end"}] if (ka, kb) == (2, 1) else [])


def ob_diff_inter(ka, kb, timeout, scale=None):
    """scale: None = arbitrary reals (2^-16 apart); a number = timestamps are small integers
    times `scale` (an exact dyadic grid, e.g. 2^-40: every length is far below 1e-8)"""
    names = ["hi"] + _ts(ka, "a") + _ts(kb, "b")

    def body(hi, *ts):
        if scale is not None:
            hi, ts = hi * scale, [t * scale for t in ts]
        ea, eb, ta, tb = _mk(ka, kb, hi, ts)
        sa, sb = snap_tier(ta), snap_tier(tb)
        d = ta.difference(tb)
        it = ta.intersection(tb)
        if snap_tier(ta) != sa or snap_tier(tb) != sb:
            return "operand mutated"
        if not (wf_interval(d) and wf_interval(it)):
            return "ill-formed"
        gd, gi = tuples(d.entries), tuples(it.entries)
        for c0, c1 in R.cells(0.0, hi, *ts):
            a, b = R.labelled(ea, c0, c1), R.labelled(eb, c0, c1)
            if R.labelled(gd, c0, c1) != (a and not b):
                return "difference: labelled time"
            if R.labelled(gi, c0, c1) != (a and b):
                return "intersection: labelled time"
            if a and not b and R.label_at(gd, c0, c1) != R.label_at(ea, c0, c1):
                return "difference: label"
        exp_i = sorted(
            (max(x[0], y[0]), min(x[1], y[1]), x[2] + "-" + y[2])
            for x in ea
            for y in eb
            if R.overlaps(x[0], x[1], y[0], y[1])
        )
        if gi != exp_i:
            return "intersection: one entry per overlapping pair labelled a-b"
        # difference entries are exactly the maximal labelled runs of A minus B
        exp_d = []
        for x in ea:
            cur = x[0]
            for y in eb:
                if R.overlaps(x[0], x[1], y[0], y[1]):
                    if y[0] > cur:
                        exp_d.append((cur, y[0], x[2]))
                    cur = y[1] if y[1] > cur else cur
            if cur < x[1]:
                exp_d.append((cur, x[1], x[2]))
        if gd != exp_d:
            return "difference: entries"
        return True

    if scale is not None:
        def pre_grid(hi, *ts):
            A, B = ts[: 2 * ka], ts[2 * ka:]
            return bool(ivs_wf_pre(0, hi, *A) & ivs_wf_pre(0, hi, *B)) and 0 <= hi <= 9

        return Ob("diff-inter-%dx%d-grid" % (ka, kb), I(*names), body, pre_grid, fmode="real", timeout=timeout, funcs=FUNCS[1:3] + [FUNCS[4]], bounds="A %d intervals, B %d intervals; timestamps k * %r, k integer in 0..9 (all lengths far below 1e-8)" % (ka, kb, scale))
    return Ob("diff-inter-%dx%d" % (ka, kb), F(*names), body, _pre(ka, kb), fmode="real", timeout=timeout, funcs=FUNCS[1:3] + [FUNCS[4]], bounds="A %d intervals, B %d intervals" % (ka, kb))


def ob_merge_labels(ka, kb, timeout):
    names = ["hi"] + _ts(ka, "a") + _ts(kb, "b")

    def body(hi, *ts):
        ea, eb, ta, tb = _mk(ka, kb, hi, ts)
        sa, sb = snap_tier(ta), snap_tier(tb)
        m = ta.mergeLabels(tb)
        if snap_tier(ta) != sa or snap_tier(tb) != sb:
            return "operand mutated"
        exp = []
        for x in ea:
            hit = [y for y in eb if R.overlaps(x[0], x[1], y[0], y[1])]
            if hit:
                exp.append((x[0], x[1], x[2] + "(" + ",".join(y[2] for y in hit) + ")"))
        if tuples(m.entries) != exp:
            return "mergeLabels entries"
        return True

    return Ob("mergelabels-%dx%d" % (ka, kb), F(*names), body, _pre(ka, kb), fmode="real", timeout=timeout, funcs=[FUNCS[3]], bounds="A %d intervals, B %d intervals" % (ka, kb))


def ob_point_union(ka, kb, timeout):
    names = ["hi"] + ["a%d" % i for i in range(ka)] + ["b%d" % i for i in range(kb)]

    def pre(hi, *ts):
        return pts_wf_pre(0.0, hi, *ts[:ka]) & pts_wf_pre(0.0, hi, *ts[ka:]) & (hi <= 1024.0) & sep(0.0, hi, *ts)

    def body(hi, *ts):
        ea = [(ts[i], LA[i]) for i in range(ka)]
        eb = [(ts[ka + i], LB[i]) for i in range(kb)]
        ta = PointTier("A", [Point(*e) for e in ea], 0.0, hi)
        tb = PointTier("B", [Point(*e) for e in eb], 0.0, hi)
        sa, sb = snap_tier(ta), snap_tier(tb)
        u = ta.union(tb)
        if snap_tier(ta) != sa or snap_tier(tb) != sb:
            return "operand mutated"
        exp = list(ea)
        for t, l in eb:
            hit = False
            for i in range(len(exp)):
                if exp[i][0] == t:
                    exp[i] = (t, exp[i][1] + "-" + l)
                    hit = True
            if not hit:
                exp.append((t, l))
        if tuples(u.entries) != sorted(exp):
            return "point union"
        return True

    return Ob("punion-%dx%d" % (ka, kb), F(*names), body, pre, fmode="real", timeout=timeout, funcs=[FUNCS[0], FUNCS[5]], bounds="A %d points, B %d points" % (ka, kb))


def ob_demarcators(timeout):
    """non-default demarcators, and the names of the results"""
    names = ["hi", "as0", "ae0", "bs0", "be0"]

    def pre(hi, a0, a1, b0, b1):
        return ivs_wf_pre(0.0, hi, a0, a1) & ivs_wf_pre(0.0, hi, b0, b1) & (hi <= 1024.0) & sep(0.0, hi, a0, a1, b0, b1)

    def body(hi, a0, a1, b0, b1):
        ta = IntervalTier("A", [Interval(a0, a1, "x")], 0.0, hi)
        tb = IntervalTier("B", [Interval(b0, b1, "p")], 0.0, hi)
        ov = R.overlaps(a0, a1, b0, b1)
        it = ta.intersection(tb, "+")
        ml = ta.mergeLabels(tb, ";")
        lo = a0 if a0 > b0 else b0
        up = a1 if a1 < b1 else b1
        if tuples(it.entries) != ([(lo, up, "x+p")] if ov else []):
            return "intersection with demarcator '+'"
        if tuples(ml.entries) != ([(a0, a1, "x(p)")] if ov else []):
            return "mergeLabels with demarcator ';'"
        # labels are data, not templates
        tc = IntervalTier("C", [Interval(b0, b1, "{p}")], 0.0, hi)
        td = IntervalTier("D", [Interval(a0, a1, "{0}%s{{")], 0.0, hi)
        if tuples(ta.intersection(tc).entries) != ([(lo, up, "x-{p}")] if ov else []):
            return "intersection with braces in B's label"
        if tuples(td.intersection(tc).entries) != ([(lo, up, "{0}%s{{-{p}")] if ov else []):
            return "intersection with braces/percent in both labels"
        if tuples(td.mergeLabels(tc).entries) != ([(a0, a1, "{0}%s{{({p})")] if ov else []):
            return "mergeLabels with braces/percent in the labels"
        # an empty label in B is still "something in B"
        te = IntervalTier("E", [Interval(b0, b1, "")], 0.0, hi)
        if tuples(ta.mergeLabels(te).entries) != ([(a0, a1, "x()")] if ov else []):
            return "mergeLabels: an interval of A that overlaps an empty-labelled interval of B is kept"
        if tuples(ta.mergeLabels(te, "").entries) != ([(a0, a1, "x()")] if ov else []):
            return "mergeLabels with an empty demarcator"
        if tuples(ta.intersection(te).entries) != ([(lo, up, "x-")] if ov else []):
            return "intersection with an empty label in B"
        tb2 = IntervalTier("B", [Interval(b0, b1, "p"), Interval(hi, hi + 1.0, "q")], 0.0, hi + 1.0)
        ta2 = IntervalTier("A", [Interval(a0, hi + 1.0, "x")], 0.0, hi + 1.0) if a0 < b0 else None
        if ta2 is not None:
            m2 = tuples(ta2.mergeLabels(tb2, ";").entries)
            if m2 != [(a0, hi + 1.0, "x(p;q)")]:
                return "mergeLabels joins several labels with the demarcator in time order"
        if (it.minTimestamp, it.maxTimestamp) != (0.0, hi) or (ml.minTimestamp, ml.maxTimestamp) != (0.0, hi):
            return "span follows the source tier"
        return True

    return Ob("demarcators-1x1", F(*names), body, pre, fmode="real", timeout=timeout, funcs=FUNCS[2:4], bounds="1x1 (and 1x2 for mergeLabels) intervals, demarcators '+' and ';'")


def ob_diff_spans(ka, timeout):
    """operands whose spans differ: A reaches beyond B's span (and vice versa)"""
    tsn = [n for i in range(ka) for n in ("a%d" % (2 * i), "a%d" % (2 * i + 1))]
    names = ["ha", "hb", "b0", "b1"] + tsn

    def pre(ha, hb, b0, b1, *ts):
        return ivs_wf_pre(0.0, ha, *ts) & ivs_wf_pre(0.0, hb, b0, b1) & within(0.0, 1024.0, ha, hb) & sep(0.0, ha, hb, b0, b1, *ts)

    def body(ha, hb, b0, b1, *ts):
        ea = [(ts[2 * i], ts[2 * i + 1], LABELS[i]) for i in range(ka)]
        eb = [(b0, b1, "p")]
        ta = IntervalTier("A", [Interval(*e) for e in ea], 0.0, ha)
        tb = IntervalTier("B", [Interval(*e) for e in eb], 0.0, hb)
        gd = tuples(ta.difference(tb).entries)
        gi = tuples(ta.intersection(tb).entries)
        top = ha if ha > hb else hb
        for c0, c1 in R.cells(0.0, top, b0, b1, ha, hb, *ts):
            a, b = R.labelled(ea, c0, c1), R.labelled(eb, c0, c1)
            if R.labelled(gd, c0, c1) != (a and not b):
                return "difference: labelled time (operands with different spans)"
            if R.labelled(gi, c0, c1) != (a and b):
                return "intersection: labelled time (operands with different spans)"
        return True

    return Ob("diff-inter-spans-%dx1" % ka, F(*names), body, pre, fmode="real", timeout=timeout, funcs=FUNCS[1:3], bounds="A %d interval(s) in [0,ha], B 1 interval in [0,hb], ha and hb independent" % ka)


def ob_inter_ieee(timeout):
    """binary64: intersection/mergeLabels of 1x1 intervals keep an overlap of one ulp and drop
    mere touching (no tolerance in the overlap test)"""
    names = ["hi", "as0", "ae0", "bs0", "be0"]

    def pre(hi, a0, a1, b0, b1):
        return ivs_wf_pre(0.0, hi, a0, a1) & ivs_wf_pre(0.0, hi, b0, b1) & finite(hi)

    def body(hi, a0, a1, b0, b1):
        ta = IntervalTier("A", [Interval(a0, a1, "x")], 0.0, hi)
        tb = IntervalTier("B", [Interval(b0, b1, "p")], 0.0, hi)
        it = tuples(ta.intersection(tb).entries)
        ml = tuples(ta.mergeLabels(tb).entries)
        lo = a0 if a0 > b0 else b0
        up = a1 if a1 < b1 else b1
        if lo < up:
            if it != [(lo, up, "x-p")] or ml != [(a0, a1, "x(p)")]:
                return "overlapping pair"
        else:
            if it != [] or ml != []:
                return "non-overlapping pair produced labelled time"
        return True

    return Ob("inter-mergelabels-ieee-1x1", F(*names), body, pre, fmode="ieee", timeout=timeout, funcs=FUNCS[2:4], bounds="1x1 intervals, all binary64 timestamps")


def ob_point_union_spans(timeout):
    """point tiers with different (also merely abutting) spans: a shared time point is merged"""
    names = ["ha", "lb", "hb", "a0", "a1", "b0", "b1"]

    def pre(ha, lb, hb, a0, a1, b0, b1):
        return pts_wf_pre(0.0, ha, a0, a1) & pts_wf_pre(lb, hb, b0, b1) & (0.0 <= lb) & (hb <= 1024.0) & (ha <= 1024.0) & sep(0.0, ha, lb, hb, a0, a1, b0, b1)

    def body(ha, lb, hb, a0, a1, b0, b1):
        ea = [(a0, "x"), (a1, "y")]
        eb = [(b0, "p"), (b1, "q")]
        ta = PointTier("A", [Point(*e) for e in ea], 0.0, ha)
        tb = PointTier("B", [Point(*e) for e in eb], lb, hb)
        u = ta.union(tb)
        exp = list(ea)
        for t, l in eb:
            hit = False
            for i in range(len(exp)):
                if exp[i][0] == t:
                    exp[i] = (t, exp[i][1] + "-" + l)
                    hit = True
            if not hit:
                exp.append((t, l))
        if tuples(u.entries) != sorted(exp):
            return "point union"
        if u.minTimestamp > 0.0 or u.maxTimestamp < (ha if ha > b1 else b1):
            return "span does not cover the union"
        return True

    return Ob("punion-spans-2x2", F(*names), body, pre, fmode="real", timeout=timeout, funcs=[FUNCS[0], FUNCS[5]], bounds="A 2 points in [0,ha], B 2 points in [lb,hb]: overlapping, abutting and disjoint spans")


def obligations(tier):
    obs = []
    if tier == "quick":
        for ka, kb in ((2, 1), (1, 2)):
            obs.append(ob_union(ka, kb, 300))
            obs.append(ob_diff_inter(ka, kb, 300))
            obs.append(ob_merge_labels(ka, kb, 200))
        obs.append(ob_point_union(2, 2, 120))
        obs.append(ob_point_union_spans(300))
        obs.append(ob_inter_ieee(300))
        obs.append(ob_demarcators(200))
        obs.append(ob_diff_spans(1, 300))
        obs.append(ob_union(0, 1, 30))
        obs.append(ob_diff_inter(1, 0, 30))
        obs.append(ob_diff_inter(1, 1, 200, scale=2.0 ** -40))
    else:
        obs.append(ob_diff_inter(1, 1, 600, scale=2.0 ** -40))
        obs.append(ob_diff_inter(2, 1, 900, scale=2.0 ** -40))
        for ka, kb in ((0, 0), (0, 1), (1, 0), (1, 1), (2, 1), (1, 2), (2, 2), (3, 1), (1, 3)):
            t = 3000 if ka + kb >= 4 else 900
            obs.append(ob_union(ka, kb, t))
            obs.append(ob_diff_inter(ka, kb, t))
            obs.append(ob_merge_labels(ka, kb, t))
        for ka, kb in ((0, 1), (1, 1), (2, 2), (3, 2), (3, 3)):
            obs.append(ob_point_union(ka, kb, 900))
        obs.append(ob_point_union_spans(1800))
        obs.append(ob_inter_ieee(1800))
        obs.append(ob_demarcators(600))
        obs.append(ob_diff_spans(1, 900))
        obs.append(ob_diff_spans(2, 2400))
    return obs
