"""C11 - insertEntry/deleteEntry follow the selected collision policy exactly."""
from engine.hlib import *  # noqa
from oracle import tier_ref as R

from praatio.data_classes.interval_tier import IntervalTier
from praatio.data_classes.point_tier import PointTier
from praatio.utilities.constants import Interval, Point
from praatio.utilities import errors, utils

MODES = ["error", "replace", "merge"]
FUNCS = [
    "praatio.data_classes.interval_tier.IntervalTier.insertEntry",
    "praatio.data_classes.interval_tier.IntervalTier.deleteEntry",
    "praatio.data_classes.point_tier.PointTier.insertEntry",
    "praatio.data_classes.point_tier.PointTier.deleteEntry",
    "praatio.data_classes.interval_tier.IntervalTier.crop / utils.getIntervalsInInterval",
    "praatio.utilities.constants.Interval.__eq__/Point.__eq__ (math.isclose)",
]
ASSUMPTIONS = [
    "environment stub: praatio.utilities.utils.print bound to a recorder (observes collisionReportingMode='warning')",
    "real mode: timestamps equal or >= 2^-16 apart, <= 1024 (tolerant equality == exact equality)",
]
PRINTED = []


def _setup():
    def rec(*a, **k):
        PRINTED.append(1)

    utils.print = rec

    def undo():
        try:
            del utils.print
        except AttributeError:
            pass

    return undo


def _ts(k):
    return [n for i in range(k) for n in ("s%d" % i, "e%d" % i)]


def ob_insert_interval(k, mode, rmode, timeout, as_tuple=False):
    names = ["ns", "ne", "lo", "hi"] + _ts(k)

    def pre(ns, ne, lo, hi, *ts):
        return ivs_wf_pre(lo, hi, *ts) & (0.0 <= lo) & (lo <= hi) & (hi <= 1024.0) & (0.0 <= ns) & (ns < ne) & (ne <= 1024.0) & sep(ns, ne, lo, hi, *ts)

    def body(ns, ne, lo, hi, *ts):
        ents = [(ts[2 * i], ts[2 * i + 1], LABELS[i]) for i in range(k)]
        tier = IntervalTier("t", mk_ivs(ts), lo, hi)
        before = snap_tier(tier)
        exp = R.insert_interval(ents, lo, hi, (ns, ne, "n"), mode)
        del PRINTED[:]
        new = (ns, ne, "n") if as_tuple else Interval(ns, ne, "n")
        try:
            tier.insertEntry(new, mode, rmode)
        except errors.CollisionError:
            if snap_tier(tier) != before:
                return "tier changed although insertEntry raised"
            return True if exp == ("collision",) else "unexpected CollisionError"
        if exp == ("collision",):
            return "collision not rejected in error mode"
        ee, nlo, nhi = exp
        if tuples(tier.entries) != ee:
            return "entries differ"
        if (tier.minTimestamp, tier.maxTimestamp) != (nlo, nhi):
            return "span differs"
        collided = any(R.overlaps(s, e, ns, ne) for (s, e, l) in ents)
        if rmode == "warning" and (len(PRINTED) > 0) != collided:
            return "warning iff collision"
        if rmode == "silence" and PRINTED:
            return "message in silence mode"
        if not wf_interval(tier) or not tier.validate("silence"):
            return "ill-formed afterwards"
        return True

    canaries = []
    if k == 2 and mode == "merge" and rmode == "silence":
        canaries = [
            {"target": "praatio.utilities.utils:getIntervalsInInterval", "find": "interval.end <= start or interval.start >= end", "replace": "interval.end <= start or interval.start > end"},
        ]
    if k == 2 and mode == "replace" and rmode == "silence":
        canaries = [
            {"target": "praatio.data_classes.interval_tier:IntervalTier.insertEntry", "find": "if self._entries[-1][1] > self.maxTimestamp:", "replace": "if self._entries[-1][1] > self.maxTimestamp and False:"},
        ]
    return Ob(
        "iinsert-k%d-%s-%s%s" % (k, mode, rmode, "-tuple" if as_tuple else ""),
        F(*names),
        body,
        pre,
        fmode="real",
        timeout=timeout,
        setup=_setup,
        canaries=canaries,
        funcs=[FUNCS[0], FUNCS[1], FUNCS[4], FUNCS[5]],
        bounds="k=%d existing intervals in span [lo,hi], new interval anywhere in [0,1024] (inside, outside, touching, overlapping one or both, containing, contained)" % k,
    )


def ob_insert_point(k, mode, rmode, timeout):
    names = ["nt", "lo", "hi"] + ["t%d" % i for i in range(k)]

    def pre(nt, lo, hi, *ts):
        return pts_wf_pre(lo, hi, *ts) & (0.0 <= lo) & (lo <= hi) & (hi <= 1024.0) & within(0.0, 1024.0, nt) & sep(nt, lo, hi, *ts)

    def body(nt, lo, hi, *ts):
        ents = [(ts[i], LABELS[i]) for i in range(k)]
        tier = PointTier("p", [Point(t, l) for t, l in ents], lo, hi)
        before = snap_tier(tier)
        exp = R.insert_point(ents, lo, hi, (nt, "n"), mode)
        del PRINTED[:]
        try:
            tier.insertEntry(Point(nt, "n"), mode, rmode)
        except errors.CollisionError:
            if snap_tier(tier) != before:
                return "tier changed although insertEntry raised"
            return True if exp == ("collision",) else "unexpected CollisionError"
        if exp == ("collision",):
            return "collision not rejected in error mode"
        ee, nlo, nhi = exp
        if tuples(tier.entries) != ee:
            return "entries differ"
        if (tier.minTimestamp, tier.maxTimestamp) != (nlo, nhi):
            return "span differs"
        collided = any(t == nt for (t, l) in ents)
        if rmode == "warning" and (len(PRINTED) > 0) != collided:
            return "warning iff collision"
        if not wf_point(tier) or not tier.validate("silence"):
            return "ill-formed afterwards"
        return True

    return Ob(
        "pinsert-k%d-%s-%s" % (k, mode, rmode),
        F(*names),
        body,
        pre,
        fmode="real",
        timeout=timeout,
        setup=_setup,
        canaries=[{"target": "praatio.data_classes.point_tier:PointTier.insertEntry", "find": '"-".join([oldPoint.label, newPoint.label])', "replace": '"-".join([newPoint.label, oldPoint.label])'}] if (k == 2 and mode == "merge" and rmode == "silence") else [],
        funcs=[FUNCS[2], FUNCS[3], FUNCS[5]],
        bounds="k=%d existing points, new point anywhere in [0,1024]" % k,
    )


def ob_insert_forms(timeout):
    """entries given as plain tuples / lists, times given as ints, default arguments"""
    names = ["nt", "t0", "hi"]

    def pre(nt, t0, hi):
        return within(0.0, 1024.0, nt, t0, hi) & (t0 <= hi) & sep(nt, t0, hi)

    def body(nt, t0, hi):
        for form in ("tuple", "list"):
            tier = PointTier("p", [Point(t0, "x")], 0.0, hi)
            e = (nt, "n") if form == "tuple" else [nt, "n"]
            try:
                tier.insertEntry(e)  # defaults: collisionMode='error', reporting 'warning'
            except errors.CollisionError:
                if nt != t0:
                    return "default collision mode raised without a collision"
                continue
            if nt == t0:
                return "default collision mode must be 'error'"
            if tuples(tier.entries) != sorted([(t0, "x"), (nt, "n")]):
                return "entries (%s form)" % form
            if not all(isinstance(x, Point) for x in tier.entries):
                return "entries are not Points after inserting a %s" % form
        it = IntervalTier("t", [Interval(0.0, 1.0, "x")], 0.0, 2048.0)
        it.insertEntry([1, 2, "n"])
        it.insertEntry((3, 4, "m"), "replace", "silence")
        if tuples(it.entries) != [(0.0, 1.0, "x"), (1, 2, "n"), (3, 4, "m")] or not all(isinstance(x, Interval) for x in it.entries):
            return "interval entries given as list/tuple with int times"
        return True

    return Ob("insert-entry-forms", F(*names), body, pre, fmode="real", timeout=timeout, setup=_setup, funcs=[FUNCS[0], FUNCS[2]], bounds="point given as tuple and as list, default arguments; intervals as list/tuple with int times")


def ob_point_nocollision_ieee(timeout):
    """binary64: two different time points never collide (no tolerance in the collision test)."""

    def pre(t0, nt):
        return within(0.0, 1024.0, t0, nt) & (t0 != nt)

    def body(t0, nt):
        tier = PointTier("p", [Point(t0, "x")], 0.0, 1024.0)
        try:
            tier.insertEntry(Point(nt, "n"), "error", "silence")
        except errors.CollisionError:
            return "distinct times reported as collision"
        got = tuples(tier.entries)
        exp = sorted([(t0, "x"), (nt, "n")])
        return True if got == exp else "entries differ"

    return Ob("pinsert-distinct-times-ieee", F("t0", "nt"), body, pre, fmode="ieee", timeout=timeout, funcs=[FUNCS[2]], bounds="1 existing point, all binary64 times in [0,1024] with t0 != nt")


def ob_delete_interval(k, timeout):
    names = ["ds", "de", "hi"] + _ts(k)

    def pre(ds, de, hi, *ts):
        return ivs_wf_pre(0.0, hi, *ts) & (hi <= 1024.0) & (0.0 <= ds) & (ds < de) & (de <= 1024.0) & sep(ds, de, hi, *ts)

    def body(ds, de, hi, dl, *ts):
        return True

    def body2(ds, de, hi, *ts):
        ents = [(ts[2 * i], ts[2 * i + 1], LABELS[i]) for i in range(k)]
        for lab in ("x", "y", "q"):
            tier = IntervalTier("t", mk_ivs(ts), 0.0, hi)
            before = snap_tier(tier)
            target = (ds, de, lab)
            try:
                tier.deleteEntry(Interval(ds, de, lab))
            except Exception:  # documented: raises if absent
                if target in ents:
                    return "present entry not deleted"
                if snap_tier(tier) != before:
                    return "tier changed although deleteEntry raised"
                continue
            if target not in ents:
                return "absent entry 'deleted'"
            exp = [e for e in ents if e != target]
            if tuples(tier.entries) != exp:
                return "wrong entries after delete"
            if (tier.minTimestamp, tier.maxTimestamp) != (0.0, hi):
                return "span changed"
        return True

    return Ob("idelete-k%d" % k, F(*names), body2, pre, fmode="real", timeout=timeout, funcs=[FUNCS[1], FUNCS[5]], bounds="k=%d intervals; entry to delete arbitrary (label x, y or absent label q)" % k)


def ob_delete_point(k, timeout):
    names = ["dt", "hi"] + ["t%d" % i for i in range(k)]

    def pre(dt, hi, *ts):
        return pts_wf_pre(0.0, hi, *ts) & (hi <= 1024.0) & within(0.0, 1024.0, dt) & sep(dt, hi, *ts)

    def body(dt, hi, *ts):
        ents = [(ts[i], LABELS[i]) for i in range(k)]
        for lab in ("x", "y", "q"):
            tier = PointTier("p", [Point(t, l) for t, l in ents], 0.0, hi)
            before = snap_tier(tier)
            target = (dt, lab)
            try:
                tier.deleteEntry(Point(dt, lab))
            except Exception:
                if target in ents:
                    return "present entry not deleted"
                if snap_tier(tier) != before:
                    return "tier changed although deleteEntry raised"
                continue
            if target not in ents:
                return "absent entry 'deleted'"
            if tuples(tier.entries) != [e for e in ents if e != target]:
                return "wrong entries after delete"
        return True

    return Ob("pdelete-k%d" % k, F(*names), body, pre, fmode="real", timeout=timeout, funcs=[FUNCS[3], FUNCS[5]], bounds="k=%d points" % k)


def ob_insert_twice(mode, form, timeout):
    """a 2-step history: insert an entry whose label carries surrounding whitespace (given as an
    Interval object or as a tuple), then insert a second one anywhere - the second step sees a
    tier that is exactly the list model of the first"""
    names = ["s0", "e0", "ns", "ne", "hi"]

    def pre(s0, e0, ns, ne, hi):
        return ivs_wf_pre(0.0, hi, s0, e0) & (hi <= 1024.0) & (0.0 <= ns) & (ns < ne) & (ne <= 1024.0) & sep(ns, ne, 0.0, hi, s0, e0)

    def body(s0, e0, ns, ne, hi):
        tier = IntervalTier("t", [], 0.0, hi)
        first = Interval(s0, e0, " mid \t") if form == "interval" else (s0, e0, " mid \t")
        tier.insertEntry(first, "error", "silence")
        if tuples(tier.entries) != [(s0, e0, "mid")]:
            return "first insert: label not stored stripped"
        exp = R.insert_interval([(s0, e0, "mid")], 0.0, hi, (ns, ne, "n"), mode)
        before = snap_tier(tier)
        try:
            tier.insertEntry(Interval(ns, ne, "n"), mode, "silence")
        except errors.CollisionError:
            if snap_tier(tier) != before:
                return "tier changed although insertEntry raised"
            return True if exp == ("collision",) else "unexpected CollisionError"
        if exp == ("collision",):
            return "collision not rejected in error mode"
        ee, nlo, nhi = exp
        if tuples(tier.entries) != ee:
            return "entries differ after the second insert"
        if (tier.minTimestamp, tier.maxTimestamp) != (nlo, nhi):
            return "span differs"
        return True

    return Ob("ihistory-insert-insert-%s-%s" % (mode, form), F(*names), body, pre, fmode="real", timeout=timeout, setup=_setup, funcs=FUNCS[:2], bounds="empty tier; first entry (label with surrounding whitespace, as %s), second entry anywhere; 2-step history" % form)


def ob_insert_identical(timeout):
    """inserting an entry that is equal to one already there (same times, same label; e.g. the
    same insert applied twice) is a collision like any other; and labels are data - characters
    that mean something to %-formatting or str.format change nothing, in particular not the
    type of the exception"""
    names = ["s0", "e0", "hi", "t0"]

    def pre(s0, e0, hi, t0):
        return ivs_wf_pre(0.0, hi, s0, e0) & within(0.0, hi, t0) & (hi <= 1024.0)

    def body(s0, e0, hi, t0):
        for lab in ("b", "100%", "%s", "{0}", "50% {x}"):
            for mode in MODES:
                tier = IntervalTier("t %d{}" if lab != "b" else "t", [Interval(s0, e0, lab)], 0.0, hi)
                pt = PointTier("p %s" if lab != "b" else "p", [Point(t0, lab)], 0.0, hi)
                for obj, new, want in ((tier, Interval(s0, e0, lab), [(s0, e0, lab)]), (pt, Point(t0, lab), [(t0, lab)])):
                    before = snap_tier(obj)
                    try:
                        obj.insertEntry(new, mode, "silence")
                    except errors.CollisionError:
                        if mode != "error":
                            return "CollisionError in %s mode" % mode
                        if snap_tier(obj) != before:
                            return "tier changed although insertEntry raised"
                        continue
                    if mode == "error":
                        return "re-inserting an existing entry in error mode did not raise CollisionError"
                    exp = want if mode == "replace" else [tuple(list(want[0][:-1]) + [lab + "-" + lab])]
                    if tuples(obj.entries) != exp:
                        return "re-inserting an existing entry in %s mode" % mode
        return True

    return Ob("insert-identical-entry", F(*names), body, pre, fmode="real", timeout=timeout, setup=_setup, funcs=FUNCS[:3], bounds="interval and point tier with one entry; the same entry inserted again in each mode; 5 labels incl. %-/{}-format characters")


def ob_insert_then_delete(k, timeout):
    names = ["ns", "ne", "hi"] + _ts(k)

    def pre(ns, ne, hi, *ts):
        return ivs_wf_pre(0.0, hi, *ts) & (hi <= 1024.0) & (0.0 <= ns) & (ns < ne) & (ne <= hi) & sep(ns, ne, hi, *ts)

    def body(ns, ne, hi, *ts):
        ents = [(ts[2 * i], ts[2 * i + 1], LABELS[i]) for i in range(k)]
        tier = IntervalTier("t", mk_ivs(ts), 0.0, hi)
        try:
            tier.insertEntry(Interval(ns, ne, "n"), "error", "silence")
        except errors.CollisionError:
            return True
        tier.deleteEntry(Interval(ns, ne, "n"))
        if tuples(tier.entries) != ents:
            return "insert;delete does not restore the tier"
        return True

    return Ob("ihistory-insert-delete-k%d" % k, F(*names), body, pre, fmode="real", timeout=timeout, funcs=FUNCS[:2], bounds="k=%d; 2-step history" % k)


def obligations(tier):
    obs = []
    if tier == "quick":
        for mode in MODES:
            obs.append(ob_insert_interval(2, mode, "silence", 300))
            obs.append(ob_insert_point(2, mode, "silence", 120))
        obs.append(ob_insert_interval(1, "merge", "warning", 120))
        obs.append(ob_insert_interval(1, "replace", "silence", 120, as_tuple=True))
        obs.append(ob_insert_point(1, "merge", "warning", 60))
        obs.append(ob_point_nocollision_ieee(120))
        obs.append(ob_insert_forms(120))
        obs.append(ob_delete_interval(2, 120))
        obs.append(ob_delete_point(2, 120))
        obs.append(ob_insert_then_delete(1, 120))
        obs.append(ob_insert_identical(200))
        obs.append(ob_insert_twice("replace", "interval", 120))
        obs.append(ob_insert_twice("merge", "tuple", 120))
    else:
        for mode in MODES:
            for rm in ("silence", "warning"):
                for k in (0, 1, 2, 3):
                    obs.append(ob_insert_interval(k, mode, rm, 2400 if k == 3 else 900))
                    obs.append(ob_insert_point(k, mode, rm, 900))
        obs.append(ob_insert_interval(2, "replace", "silence", 900, as_tuple=True))
        obs.append(ob_point_nocollision_ieee(900))
        obs.append(ob_insert_forms(600))
        for k in (1, 2, 3):
            obs.append(ob_delete_interval(k, 900))
            obs.append(ob_delete_point(k, 900))
            obs.append(ob_insert_then_delete(k, 900))
        obs.append(ob_insert_identical(900))
        for m in MODES:
            for f in ("interval", "tuple"):
                obs.append(ob_insert_twice(m, f, 600))
    return obs
