"""C12 - a Textgrid is an ordered, uniquely-named tier map and edits act tier-wise."""
from engine.hlib import *  # noqa
from oracle import tier_ref as R

from praatio.data_classes.interval_tier import IntervalTier
from praatio.data_classes.point_tier import PointTier
from praatio.data_classes.textgrid import Textgrid
from praatio.utilities.constants import Interval, Point
from praatio.utilities import errors

FUNCS = [
    "praatio.data_classes.textgrid.Textgrid.addTier",
    "praatio.data_classes.textgrid.Textgrid.removeTier",
    "praatio.data_classes.textgrid.Textgrid.renameTier",
    "praatio.data_classes.textgrid.Textgrid.replaceTier",
    "praatio.data_classes.textgrid.Textgrid.mergeTiers",
    "praatio.data_classes.textgrid.Textgrid.crop/eraseRegion/insertSpace/editTimestamps/validate",
]
NAMES = ["a", "b", "c", "d"]
ARR = {0: [], 1: ["a"], 2: ["b", "a"], 3: ["c", "a", "b"]}


def _build(n, M, ms):
    """textgrid satisfying the representation invariant: names ARR[n] in that order,
    tier i spans [0, ms[i]] <= [0, M]"""
    tg = Textgrid(0.0, M)
    for i, nm in enumerate(ARR[n]):
        tg.addTier(IntervalTier(nm, [], 0.0, ms[i]), reportingMode="silence")
    return tg


def _state(tg):
    return (list(tg.tierNames), [(t.name, t.minTimestamp, t.maxTimestamp, id(t)) for t in tg.tiers], tg.minTimestamp, tg.maxTimestamp)


def _inv(tg):
    names = list(tg.tierNames)
    if len(set(names)) != len(names):
        return "duplicate names"
    if [t.name for t in tg.tiers] != names:
        return "key/name mismatch or order mismatch"
    if [t.name for t in tg] != names or len(tg) != len(names):
        return "iteration order"
    for t in tg.tiers:
        if tg.getTier(t.name) is not t:
            return "name maps to another tier"
        if not (tg.minTimestamp <= t.minTimestamp and t.maxTimestamp <= tg.maxTimestamp):
            return "span does not cover tier"
    return True


def _pre_spans(n):
    def f(M, *ms):
        ok = (0.0 <= M) & (M <= 512.0)
        for m in ms[:n]:
            ok = ok & (0.0 <= m) & (m <= M)
        return ok

    return f


def ob_add(n, timeout):
    P = I("idx", "useidx", "nm", "strict") + F("M", "m0", "m1", "m2", "nlo", "nhi")

    def pre(idx, useidx, nm, strict, M, m0, m1, m2, nlo, nhi):
        return _pre_spans(n)(M, m0, m1, m2) and (-6 <= idx <= 6) and (0 <= useidx <= 1) and (0 <= nm <= 3) and (0 <= strict <= 1) and bool((0.0 <= nlo) & (nlo <= nhi) & (nhi <= 1024.0))

    def body(idx, useidx, nm, strict, M, m0, m1, m2, nlo, nhi):
        tg = _build(n, M, [m0, m1, m2])
        model = list(ARR[n])
        before = _state(tg)
        new = IntervalTier(NAMES[nm], [], nlo, nhi)
        try:
            tg.addTier(new, idx if useidx else None, "error" if strict else "silence")
        except errors.TextgridStateAutoModified:
            if not strict or NAMES[nm] in model or not (nhi > M):  # the textgrid's own span [0, M] is set whether or not it holds tiers
                return "spurious TextgridStateAutoModified"
            return True if _state(tg) == before else "changed although addTier raised"
        except errors.TierNameExistsError:
            if NAMES[nm] not in model:
                return "spurious TierNameExistsError"
            return True if _state(tg) == before else "changed although addTier raised"
        if NAMES[nm] in model:
            return "duplicate name accepted"
        if strict and nhi > M:
            return "span change not reported under reportingMode='error'"
        if useidx:
            model.insert(idx, NAMES[nm])
        else:
            model.append(NAMES[nm])
        if list(tg.tierNames) != model:
            return "order differs from list model"
        if tg.getTier(NAMES[nm]) is not new:
            return "name does not map to the added tier"
        if tg.minTimestamp != min(0.0, nlo) or tg.maxTimestamp != max(M, nhi):
            return "span"
        return _inv(tg)

    return Ob("map-add-n%d" % n, P, body, pre, fmode="real", timeout=timeout, funcs=FUNCS[:1], bounds="%d existing tiers, index -6..6 or None, 4 candidate names, symbolic spans" % n)


def ob_remove(n, timeout):
    P = I("nm") + F("M", "m0", "m1", "m2")

    def pre(nm, M, m0, m1, m2):
        return _pre_spans(n)(M, m0, m1, m2) and (0 <= nm <= 3)

    def body(nm, M, m0, m1, m2):
        tg = _build(n, M, [m0, m1, m2])
        model = list(ARR[n])
        before = _state(tg)
        want = tg.getTier(NAMES[nm]) if NAMES[nm] in model else None
        try:
            got = tg.removeTier(NAMES[nm])
        except KeyError:
            if NAMES[nm] in model:
                return "present tier not removed"
            return True if _state(tg) == before else "changed although removeTier raised"
        if NAMES[nm] not in model:
            return "absent tier 'removed'"
        model.remove(NAMES[nm])
        if list(tg.tierNames) != model or got is not want:
            return "order/returned tier"
        if (tg.minTimestamp, tg.maxTimestamp) != (0.0, M):
            return "span changed"
        return _inv(tg)

    return Ob("map-remove-n%d" % n, P, body, pre, fmode="real", timeout=timeout, funcs=FUNCS[1:2], bounds="%d tiers, 4 candidate names" % n)


def ob_rename(n, timeout):
    P = I("old", "new") + F("M", "m0", "m1", "m2")

    def pre(old, new, M, m0, m1, m2):
        return _pre_spans(n)(M, m0, m1, m2) and (0 <= old <= 3) and (0 <= new <= 3)

    def body(old, new, M, m0, m1, m2):
        tg = _build(n, M, [m0, m1, m2])
        model = list(ARR[n])
        before = _state(tg)
        o, w = NAMES[old], NAMES[new]
        try:
            tg.renameTier(o, w)
        except errors.TierNameExistsError:
            if not (o in model and w in model and w != o):
                return "spurious TierNameExistsError"
            return True if _state(tg) == before else "changed although renameTier raised"
        except KeyError:
            if o in model:
                return "KeyError for present tier"
            return True if _state(tg) == before else "changed although renameTier raised"
        if o not in model:
            return "absent tier renamed"
        if w in model and w != o:
            return "clash accepted"
        i = model.index(o)
        model[i] = w
        if list(tg.tierNames) != model:
            return "order differs from list model"
        t = tg.getTier(w)
        if t.name != w or (t.minTimestamp, t.maxTimestamp) != (0.0, [m0, m1, m2][i]):
            return "renamed tier"
        return _inv(tg)

    return Ob("map-rename-n%d" % n, P, body, pre, fmode="real", timeout=timeout, funcs=FUNCS[2:3], bounds="%d tiers, old/new from 4 names" % n)


def ob_replace(n, timeout):
    P = I("old", "new") + F("M", "m0", "m1", "m2", "nlo", "nhi")

    def pre(old, new, M, m0, m1, m2, nlo, nhi):
        return _pre_spans(n)(M, m0, m1, m2) and (0 <= old <= 3) and (0 <= new <= 3) and bool((0.0 <= nlo) & (nlo <= nhi) & (nhi <= 1024.0))

    def body(old, new, M, m0, m1, m2, nlo, nhi):
        tg = _build(n, M, [m0, m1, m2])
        model = list(ARR[n])
        before = _state(tg)
        o, w = NAMES[old], NAMES[new]
        nt = IntervalTier(w, [], nlo, nhi)
        try:
            tg.replaceTier(o, nt, "silence")
        except errors.TierNameExistsError:
            if not (o in model and w in model and w != o):
                return "spurious TierNameExistsError"
            return True if _state(tg) == before else "changed although replaceTier raised"
        except (KeyError, ValueError):
            if o in model:
                return "error for present tier"
            return True if _state(tg) == before else "changed although replaceTier raised"
        if o not in model:
            return "absent tier replaced"
        if w in model and w != o:
            return "clash accepted"
        model[model.index(o)] = w
        if list(tg.tierNames) != model or tg.getTier(w) is not nt:
            return "order/mapping differs from list model"
        if tg.minTimestamp != min(0.0, nlo) or tg.maxTimestamp != max(M, nhi):
            return "span only widens to cover the new tier"
        return _inv(tg)

    return Ob("map-replace-n%d" % n, P, body, pre, fmode="real", timeout=timeout, funcs=FUNCS[3:4], bounds="%d tiers, names from 4, symbolic spans" % n)


def ob_history2(timeout):
    """cross-check of the inductive argument: add;add;rename;remove from the empty textgrid"""
    P = I("n1", "n2", "i2", "r1", "r2", "d")

    def pre(n1, n2, i2, r1, r2, d):
        return all(0 <= v <= 3 for v in (n1, n2, r1, r2, d)) and -3 <= i2 <= 3

    def body(n1, n2, i2, r1, r2, d):
        tg = Textgrid(0.0, 1.0)
        model = []

        def step(fn, mfn, okexc):
            before = _state(tg)
            try:
                fn()
            except okexc:
                return _state(tg) == before
            mfn()
            return True

        def m_add(nm, idx=None):
            def f():
                if NAMES[nm] in model:
                    raise AssertionError("model: duplicate accepted")
                model.insert(idx, NAMES[nm]) if idx is not None else model.append(NAMES[nm])
            return f

        if not step(lambda: tg.addTier(IntervalTier(NAMES[n1], [], 0.0, 1.0)), m_add(n1), errors.TierNameExistsError):
            return "atomicity"
        if not step(lambda: tg.addTier(IntervalTier(NAMES[n2], [], 0.0, 1.0), i2), m_add(n2, i2), errors.TierNameExistsError):
            return "atomicity"

        def m_ren():
            if NAMES[r1] not in model or (NAMES[r2] in model and r1 != r2):
                raise AssertionError("model: rename accepted")
            model[model.index(NAMES[r1])] = NAMES[r2]

        if not step(lambda: tg.renameTier(NAMES[r1], NAMES[r2]), m_ren, (errors.TierNameExistsError, KeyError)):
            return "atomicity"

        def m_del():
            model.remove(NAMES[d])

        if not step(lambda: tg.removeTier(NAMES[d]), m_del, KeyError):
            return "atomicity"
        if list(tg.tierNames) != model:
            return "history differs from list model"
        return _inv(tg)

    return Ob("map-history-add-add-rename-remove", P, body, pre, timeout=timeout, funcs=FUNCS[:3], bounds="4-step history from the empty textgrid, 4 names, index -3..3")


def ob_merge(order, preserve, timeout):
    P = F("hi", "as0", "ae0", "bs0", "be0", "p0", "q0")

    def pre(hi, as0, ae0, bs0, be0, p0, q0):
        return ivs_wf_pre(0.0, hi, as0, ae0) & ivs_wf_pre(0.0, hi, bs0, be0) & within(0.0, hi, p0, q0) & (hi <= 512.0) & sep(0.0, hi, as0, ae0, bs0, be0, p0, q0)

    def body(hi, as0, ae0, bs0, be0, p0, q0):
        tg = Textgrid(0.0, hi)
        A = IntervalTier("a", [Interval(as0, ae0, "x")], 0.0, hi)
        B = IntervalTier("b", [Interval(bs0, be0, "y")], 0.0, hi)
        Pt = PointTier("p", [Point(p0, "u")], 0.0, hi)
        Q = PointTier("q", [Point(q0, "v")], 0.0, hi)
        O = IntervalTier("other", [], 0.0, hi)
        for t in (A, Pt, B, O, Q):
            tg.addTier(t)
        before = snap_tg(tg)
        sel = {"none": None, "all-in-order": ["a", "p", "b", "q"], "reversed": ["q", "b", "p", "a"], "empty": [], "empty-tier-first": ["other", "a", "p", "b", "q"], "only-empty-tier": ["other", "q"]}[order]
        r = tg.mergeTiers(sel, preserve)
        if snap_tg(tg) != before:
            return "receiver mutated"
        if order == "empty":  # nothing selected: nothing is fused
            want = ["a", "p", "b", "other", "q"] if preserve else []
            if list(r.tierNames) != want:
                return "empty selection must not fuse anything"
            for nm in want:
                if snap_tier(r.getTier(nm)) != snap_tier(tg.getTier(nm)):
                    return "tier changed although nothing was selected"
            return True
        if order == "empty-tier-first":  # a tier without entries is a tier like any other
            ei, ep = O.union(A).union(B), Pt.union(Q)
        elif order == "only-empty-tier":
            ei, ep = O, Q
        elif order == "reversed":
            ei, ep = B.union(A), Q.union(Pt)
        elif order == "none":  # every tier is selected, in textgrid order
            ei, ep = A.union(B).union(O), Pt.union(Q)
        else:
            ei, ep = A.union(B), Pt.union(Q)
        if order in ("empty-tier-first", "only-empty-tier"):
            want = ([n for n in ("a", "p", "b", "other", "q") if n not in sel] if preserve else []) + [ei.name, ep.name]
        else:
            want = (["other"] if (preserve and order != "none") else []) + [ei.name, ep.name]
        if list(r.tierNames) != want:
            return "tier set/order"
        if snap_tier(r.getTier(ei.name)) != snap_tier(ei) or snap_tier(r.getTier(ep.name)) != snap_tier(ep):
            return "merged tier is not the union fold in selection order"
        return True

    return Ob("merge-%s-%s" % (order, "preserve" if preserve else "drop"), P, body, pre, fmode="real", timeout=timeout, funcs=FUNCS[4:5], bounds="2 interval + 2 point tiers (1 entry each) + 1 other tier")


def obligations(tier):
    obs = []
    T = 300 if tier == "quick" else 1200
    for n in ((2, 3) if tier == "quick" else (0, 1, 2, 3)):
        obs.append(ob_add(n, T))
        obs.append(ob_remove(n, T))
        obs.append(ob_rename(n, T))
        obs.append(ob_replace(n, T))
    if tier != "quick":
        obs.append(ob_history2(2400))
    if tier == "quick":
        obs.append(ob_merge("none", True, T))
        obs.append(ob_merge("reversed", False, T))
        obs.append(ob_merge("empty", True, T))
        obs.append(ob_merge("empty-tier-first", False, T))
        obs.append(ob_merge("only-empty-tier", True, T))
    else:
        for o in ("none", "all-in-order", "reversed", "empty", "empty-tier-first", "only-empty-tier"):
            for p in (True, False):
                obs.append(ob_merge(o, p, T))
    # tier-wise edits: the Textgrid-level obligations of C06-C09 (each result tier == the
    # tier-level operation, names/order kept, validate() true)
    from harness import C06, C07, C08, C09

    if tier == "quick":
        tw = [C06.ob_tg_crop("truncated", True, T), C06.ob_tg_crop("strict", False, T), C07.ob_tg_erase(True, T), C08.ob_tg_space("split", T), C09.ob_tg_shift("silence", T)]
    else:
        tw = [C06.ob_tg_crop(m, rb, T) for m in C06.MODES for rb in (False, True)]
        tw += [C07.ob_tg_erase(s, T) for s in (False, True)]
        tw += [C08.ob_tg_space(m, T) for m in C08.MODES]
        tw += [C09.ob_tg_shift(m, T) for m in ("silence", "warning", "error")]
    for o in tw:
        o.name = "tierwise-" + o.name
    obs += tw
    from harness import fp_kernels

    obs += fp_kernels.c12_obligations(tier)
    return obs


def setup_all():
    from harness import C09

    return C09._setup()
