"""C13 - copy-returning operations never mutate; failed mutations change nothing; a save
that raises does not touch the destination."""
from engine.hlib import *  # noqa

from praatio.data_classes.interval_tier import IntervalTier
from praatio.data_classes.point_tier import PointTier
from praatio.data_classes.textgrid import Textgrid
from praatio.data_classes import textgrid as tgmod
from praatio.utilities.constants import Interval, Point
from praatio.utilities import errors, utils

from harness import C05

FUNCS = [
    "IntervalTier/PointTier: crop, eraseRegion, insertSpace, editTimestamps, union, difference, intersection, mergeLabels, morph, dejitter, appendTier, new, validate, find, getNonEntries, timestamps",
    "IntervalTier/PointTier: insertEntry, deleteEntry (all-or-nothing)",
    "Textgrid: crop, eraseRegion, insertSpace, editTimestamps, appendTextgrid, mergeTiers, new, validate, save",
    "Textgrid: addTier, removeTier, renameTier, replaceTier (all-or-nothing)",
    "praatio.utilities.textgrid_io.getTextgridAsStr/_prepTgForSaving/_fillInBlanks (through Textgrid.save)",
]
ASSUMPTIONS = [
    "environment stub: the name `io` of praatio.data_classes.textgrid is bound to a recorder whose open() records the call and returns an in-memory sink (decides 'no open before serialisation succeeded'; bytes on disk are outside the claim)",
    "environment stub: praatio.utilities.utils.print bound to a recorder",
    "environment stub (save obligations only): my_math.numToStr and textgrid_io.json.dumps return constant tokens - number/JSON rendering is decided in C01/C02",
]
MUTATORS = ("insert-", "delete")


def _ts(k, p=""):
    return [n for i in range(k) for n in (p + "s%d" % i, p + "e%d" % i)]


def ob_i_nomut(opname, k, timeout):
    extra, xpre, fn = C05._iops()[opname]
    names = ["lo", "hi"] + _ts(k) + extra
    inplace = opname.startswith(MUTATORS)

    def pre(lo, hi, *rest):
        ts, ex = rest[: 2 * k], rest[2 * k:]
        ok = ivs_wf_pre(lo, hi, *ts) & (0.0 <= lo) & (lo <= hi) & (hi <= 512.0) & within(-1024.0, 1024.0, *ex) & sep(lo, hi, 0.0, *rest)
        if xpre is not None:
            ok = ok & xpre(*ex)
        return ok

    def body(lo, hi, *rest):
        ts, ex = rest[: 2 * k], rest[2 * k:]
        tier = IntervalTier("t", mk_ivs(ts), lo, hi)
        before = snap_tier(tier)
        try:
            fn(tier, None, *ex)
        except (errors.PraatioException, ValueError):
            return True if snap_tier(tier) == before else "object changed although the call raised"
        if not inplace and snap_tier(tier) != before:
            return "receiver mutated by a copy-returning operation"
        return True

    return Ob("i-%s-k%d" % (opname, k), F(*names), body, pre, fmode="real", timeout=timeout, funcs=FUNCS[:2], bounds="k=%d intervals; arguments anywhere in [-1024,1024]" % k)


def ob_i_bin_nomut(opname, k, k2, timeout):
    fn = C05._ibinops()[opname]
    names = ["hi", "hi2"] + _ts(k) + _ts(k2, "o")

    def pre(hi, hi2, *rest):
        ts, os_ = rest[: 2 * k], rest[2 * k:]
        return ivs_wf_pre(0.0, hi, *ts) & ivs_wf_pre(0.0, hi2, *os_) & (hi <= 512.0) & (hi2 <= 512.0) & sep(hi, hi2, 0.0, *rest)

    def body(hi, hi2, *rest):
        ts, os_ = rest[: 2 * k], rest[2 * k:]
        tier = IntervalTier("t", mk_ivs(ts), 0.0, hi)
        other = IntervalTier("o", mk_ivs(os_, ["p", "q", "r"]), 0.0, hi2)
        b1, b2 = snap_tier(tier), snap_tier(other)
        try:
            fn(tier, other)
        except errors.PraatioException:
            pass
        if snap_tier(tier) != b1:
            return "receiver mutated"
        if snap_tier(other) != b2:
            return "argument mutated"
        return True

    return Ob("i-%s-%dx%d" % (opname, k, k2), F(*names), body, pre, fmode="real", timeout=timeout, funcs=FUNCS[:1], bounds="receiver k=%d, argument k=%d" % (k, k2))


def ob_i_queries(k, timeout):
    names = ["hi"] + _ts(k)

    def pre(hi, *ts):
        return ivs_wf_pre(0.0, hi, *ts) & (hi <= 512.0)

    def body(hi, *ts):
        tier = IntervalTier("t", mk_ivs(ts), 0.0, hi)
        before = snap_tier(tier)
        tier.validate("silence")
        tier.find("x")
        tier.find("x", substrMatchFlag=True)
        tier.getNonEntries()
        tier.timestamps
        data = [(ts[1], 2), (ts[0], 1)]
        tier.getValuesInIntervals(data)
        if data != [(ts[1], 2), (ts[0], 1)]:
            return "query changed the list it was given"
        list(tier)
        len(tier)
        tier == tier.new()
        return True if snap_tier(tier) == before else "query mutated the tier"

    return Ob("i-queries-k%d" % k, F(*names), body, pre, fmode="real", timeout=timeout, funcs=FUNCS[:1], bounds="k=%d" % k)


def ob_p_queries(timeout):
    names = ["hi", "t0", "t1", "x0", "x1", "x2"]

    def pre(hi, t0, t1, x0, x1, x2):
        return pts_wf_pre(0.0, hi, t0, t1) & (hi <= 512.0) & within(0.0, 512.0, x0, x1, x2)

    def body(hi, t0, t1, x0, x1, x2):
        tier = PointTier("p", [Point(t0, "x"), Point(t1, "y")], 0.0, hi)
        data = [(x0, "a"), (x1, "b"), (x2, "c")]  # in any order
        keep = list(data)
        before = snap_tier(tier)
        tier.getValuesAtPoints(data, False)
        tier.getValuesAtPoints(data, True)
        tier.validate("silence")
        tier.find("x")
        tier.timestamps
        tier == tier.new()
        if data != keep:
            return "query changed the list it was given"
        return True if snap_tier(tier) == before else "query mutated the tier"

    return Ob("p-queries", F(*names), body, pre, fmode="real", timeout=timeout, funcs=FUNCS[:1], bounds="2 points, 3 samples in any order")


def ob_p_nomut(opname, k, timeout):
    extra, fn = C05._pops()[opname]
    names = ["lo", "hi"] + ["t%d" % i for i in range(k)] + extra
    inplace = opname.startswith(MUTATORS)

    def pre(lo, hi, *rest):
        ts, ex = rest[:k], rest[k:]
        return pts_wf_pre(lo, hi, *ts) & (0.0 <= lo) & (lo <= hi) & (hi <= 512.0) & within(-1024.0, 1024.0, *ex) & sep(lo, hi, 0.0, *rest)

    def body(lo, hi, *rest):
        ts, ex = rest[:k], rest[k:]
        tier = PointTier("p", [Point(ts[i], LABELS[i]) for i in range(k)], lo, hi)
        before = snap_tier(tier)
        try:
            fn(tier, None, *ex)
        except (errors.PraatioException, ValueError):
            return True if snap_tier(tier) == before else "object changed although the call raised"
        if not inplace and snap_tier(tier) != before:
            return "receiver mutated by a copy-returning operation"
        return True

    return Ob("p-%s-k%d" % (opname, k), F(*names), body, pre, fmode="real", timeout=timeout, funcs=FUNCS[:2], bounds="k=%d points" % k)


# ------------------------------------------------------------------ Textgrid level
def _mk_tg(hi, s0, e0, t0):
    tg = Textgrid(0.0, hi)
    tg.addTier(IntervalTier("i", [Interval(s0, e0, "x")], 0.0, hi))
    tg.addTier(PointTier("p", [Point(t0, "q")], 0.0, hi))
    tg.addTier(IntervalTier("empty", [], 0.0, hi))
    return tg


def _pre_tg(hi, s0, e0, t0, *ex):
    return ivs_wf_pre(0.0, hi, s0, e0) & within(0.0, hi, t0) & (hi <= 512.0) & within(-1024.0, 1024.0, *ex) & sep(0.0, hi, s0, e0, t0, *ex)


TG_OPS = {
    "crop-truncated-rb": (["a", "b"], lambda tg, a, b: tg.crop(a, b, "truncated", True)),
    "crop-lax-norb": (["a", "b"], lambda tg, a, b: tg.crop(a, b, "lax", False)),
    "erase-shrink": (["a", "b"], lambda tg, a, b: tg.eraseRegion(a, b, True)),
    "erase-noshrink": (["a", "b"], lambda tg, a, b: tg.eraseRegion(a, b, False)),
    "space-split": (["a", "b"], lambda tg, a, b: tg.insertSpace(a, b, "split")),
    "space-error": (["a", "b"], lambda tg, a, b: tg.insertSpace(a, b, "error")),
    "shift-silence": (["a"], lambda tg, a: tg.editTimestamps(a, "silence")),
    "shift-error": (["a"], lambda tg, a: tg.editTimestamps(a, "error")),
    "append": ([], lambda tg: tg.appendTextgrid(tg.new(), False)),
    "merge": ([], lambda tg: tg.mergeTiers()),
    "new-validate": ([], lambda tg: (tg.new(), tg.validate("silence"), tg == tg.new())),
}


def ob_tg_nomut(opname, timeout):
    extra, fn = TG_OPS[opname]
    names = ["hi", "s0", "e0", "t0"] + extra

    def body(hi, s0, e0, t0, *ex):
        tg = _mk_tg(hi, s0, e0, t0)
        before = snap_tg(tg)
        try:
            fn(tg, *ex)
        except errors.PraatioException:
            pass
        return True if snap_tg(tg) == before else "receiver (or one of its tiers) mutated"

    return Ob("tg-%s" % opname, F(*names), body, _pre_tg, fmode="real", timeout=timeout, setup=_setup_print, funcs=FUNCS[2:3], bounds="3 tiers (interval k=1, point k=1, empty interval tier)")


def _setup_print():
    utils.print = lambda *a, **k: None

    def undo():
        try:
            del utils.print
        except AttributeError:
            pass

    return undo


def ob_tg_mutators(timeout):
    """every failing argument class of addTier/removeTier/renameTier/replaceTier leaves the
    textgrid exactly as before"""
    names = ["hi", "nhi"]

    def pre(hi, nhi):
        return within(0.0, 512.0, hi, nhi)

    def body(hi, nhi):
        def fresh():
            tg = Textgrid(0.0, hi)
            tg.addTier(IntervalTier("a", [], 0.0, hi))
            tg.addTier(PointTier("b", [], 0.0, hi))
            return tg

        def st(tg):
            return (list(tg.tierNames), [id(t) for t in tg.tiers], tg.minTimestamp, tg.maxTimestamp, [snap_tier(t) for t in tg.tiers])

        big = IntervalTier("c", [], 0.0, nhi)
        clash = IntervalTier("b", [], 0.0, nhi)
        calls = [
            ("addTier name clash", lambda tg: tg.addTier(clash)),
            ("addTier name clash at index", lambda tg: tg.addTier(clash, 0)),
            ("addTier span change under error", lambda tg: tg.addTier(big, None, "error")),
            ("addTier span change under error at index", lambda tg: tg.addTier(big, 0, "error")),
            ("addTier invalid option", lambda tg: tg.addTier(big, None, "bogus")),
            ("removeTier missing", lambda tg: tg.removeTier("zz")),
            ("renameTier clash", lambda tg: tg.renameTier("a", "b")),
            ("renameTier missing", lambda tg: tg.renameTier("zz", "c")),
            ("replaceTier clash", lambda tg: tg.replaceTier("a", clash)),
            ("replaceTier missing", lambda tg: tg.replaceTier("zz", big)),
            ("replaceTier span change under error", lambda tg: tg.replaceTier("a", big, "error")),
            ("replaceTier invalid option", lambda tg: tg.replaceTier("a", big, "bogus")),
        ]
        for what, call in calls:
            tg = fresh()
            before = st(tg)
            try:
                call(tg)
            except Exception:
                if st(tg) != before:
                    return "textgrid changed although the call raised: " + what
        # textgrids that know only one of their two bounds (or none)
        for lo0, hi0 in ((None, hi), (0.0, None), (None, None)):
            for idx in (None, 0):
                tg = Textgrid(lo0, hi0)
                before = st(tg)
                try:
                    tg.addTier(IntervalTier("c", [], 0.0, nhi), idx, "error")
                except Exception:
                    if st(tg) != before:
                        return "textgrid with span (%r, %r) changed although addTier raised" % (lo0, "hi" if hi0 is not None else None)
        return True

    return Ob("tg-mutators-all-or-nothing", F(*names), body, pre, fmode="real", timeout=timeout, setup=_setup_print, funcs=FUNCS[3:4], bounds="2 tiers; new tier span [0,nhi] smaller or larger than the textgrid's")


def ob_insert_invalid_option(kind, timeout):
    """insertEntry with an option value that is not one of the documented ones raises and
    leaves the tier as it was - also when the new entry collides with an existing one"""
    names = ["hi", "t0", "t1", "nt", "ne"]

    def pre(hi, t0, t1, nt, ne):
        return within(0.0, hi, t0, t1, nt, ne) & (t0 < t1) & (nt < ne) & (hi <= 512.0)

    def body(hi, t0, t1, nt, ne):
        for cm, rm in (("replace", "loud"), ("merge", "WARNING"), ("error", "loud"), ("replace", None), ("overwrite", "silence"), ("overwrite", "loud")):
            if kind == "point":
                tier = PointTier("p", [Point(t0, "x"), Point(t1, "y")], 0.0, hi)
                new = Point(nt, "n")
            else:
                tier = IntervalTier("t", [Interval(t0, t1, "x")], 0.0, hi)
                new = Interval(nt, ne, "n")
            before = snap_tier(tier)
            try:
                tier.insertEntry(new, cm, rm)
            except errors.PraatioException:
                if snap_tier(tier) != before:
                    return "tier changed although insertEntry rejected the option values (%r, %r)" % (cm, rm)
                continue
            return "option values (%r, %r) accepted" % (cm, rm)
        return True

    return Ob("%s-insert-invalid-option" % kind[0], F(*names), body, pre, fmode="real", timeout=timeout, setup=_setup_print, funcs=FUNCS[:2], bounds="%s tier, new entry anywhere (also exactly on / overlapping an existing one), 6 invalid option combinations" % kind)


# ------------------------------------------------------------------ save
OPENED = []


class _Sink:
    def __enter__(self):
        return self

    def __exit__(self, *a):
        return False

    def write(self, s):
        OPENED.append(("write", len(s)))


class _FakeIO:
    @staticmethod
    def open(*a, **k):
        OPENED.append(("open", a[0] if a else None))
        return _Sink()


class _FakeJson:
    @staticmethod
    def dumps(obj, **k):
        return "<json>"


def _setup_save():
    from praatio.utilities import my_math, textgrid_io

    old = tgmod.io
    old_n, old_j = my_math.numToStr, textgrid_io.json
    tgmod.io = _FakeIO
    # number/JSON rendering is the subject of C01/C02, not of C13: C-level formatting
    # would make CrossHair enumerate concrete timestamps instead of deciding paths
    my_math.numToStr = lambda x: "<n>"
    textgrid_io.json = _FakeJson
    utils.print = lambda *a, **k: None

    def undo():
        tgmod.io = old
        my_math.numToStr, textgrid_io.json = old_n, old_j
        try:
            del utils.print
        except AttributeError:
            pass

    return undo


def ob_save(fmt, blanks, variant, timeout):
    names = ["hi", "s0", "e0", "t0"] + {"override": ["omin", "omax"], "invalid-tg-error": ["thi"]}.get(variant, [])

    def pre(hi, s0, e0, t0, *ex):
        return ivs_wf_pre(0.0, hi, s0, e0) & within(0.0, hi, t0) & (hi <= 512.0) & within(0.0, 1024.0, *ex)

    def body(hi, s0, e0, t0, *ex):
        tg = _mk_tg(hi, s0, e0, t0)
        if variant == "invalid-tg-error":
            tg.addTier(PointTier("odd", [], 0.0, ex[0]), reportingMode="silence")
        before = snap_tg(tg)
        del OPENED[:]
        try:
            if variant == "plain":
                tg.save("dest", fmt, blanks, None, None, None, "silence")
            elif variant == "override":
                tg.save("dest", fmt, blanks, ex[0], ex[1], None, "silence")
            elif variant == "invalid-tg-error":
                tg.save("dest", fmt, blanks, None, None, None, "error")
            elif variant == "bad-format":
                tg.save("dest", "docx", blanks, None, None, None, "silence")
            else:
                tg.save("dest", fmt, blanks, None, None, None, "loud")
        except errors.PraatioException:
            if OPENED:
                return "destination opened although save raised"
        else:
            if variant in ("bad-format", "bad-reporting"):
                return "invalid option accepted"
            if [o[0] for o in OPENED] != ["open", "write"]:
                return "save did not write exactly once"
        if snap_tg(tg) != before:
            return "save mutated the textgrid"
        return True

    return Ob("tg-save-%s-%s-%s" % (fmt, "blanks" if blanks else "noblanks", variant), F(*names), body, pre, fmode="real", timeout=timeout, setup=_setup_save, funcs=[FUNCS[2], FUNCS[4]], bounds="3 tiers incl. an empty interval tier; variant %s (symbolic min/max overrides in [0,1024]; 4th tier with a different span for the invalid-textgrid case)" % variant)


SAVE_VARIANTS = ("plain", "override", "invalid-tg-error", "bad-format", "bad-reporting")


def _ops(d):
    """operations of C05 that are in C13's scope.  insertEntry(collisionReportingMode='error') is
    not: the parameter is documented as Literal['silence', 'warning'] - with 'error' the tier is
    edited and the report then raised, which C05 still requires to leave a well-formed tier but
    which is not one of the failing argument classes of this property"""
    return sorted(op for op in d if "reporting-error" not in op)


def obligations(tier):
    obs = []
    if tier == "quick":
        K, T = 1, 240
        for op in _ops(C05._iops()):
            obs.append(ob_i_nomut(op, K, T))
        for op in sorted(C05._ibinops()):
            obs.append(ob_i_bin_nomut(op, 1, 1, T))
        obs.append(ob_i_queries(2, 60))
        obs.append(ob_p_queries(200))
        for op in _ops(C05._pops()):
            obs.append(ob_p_nomut(op, 2, 120))
        for op in sorted(TG_OPS):
            obs.append(ob_tg_nomut(op, T))
        obs.append(ob_tg_mutators(T))
        obs.append(ob_insert_invalid_option("point", T))
        obs.append(ob_insert_invalid_option("interval", T))
        for v in SAVE_VARIANTS:
            obs.append(ob_save("short_textgrid", True, v, T))
        obs.append(ob_save("json", False, "override", T))
        obs.append(ob_save("long_textgrid", True, "plain", T))
    else:
        for op in _ops(C05._iops()):
            for k in (0, 1, 2):
                obs.append(ob_i_nomut(op, k, 1200))
        for op in sorted(C05._ibinops()):
            for k, k2 in ((0, 0), (1, 1), (2, 1), (1, 2)):
                obs.append(ob_i_bin_nomut(op, k, k2, 1200))
        obs.append(ob_i_queries(3, 300))
        obs.append(ob_p_queries(900))
        for op in _ops(C05._pops()):
            for k in (0, 1, 2, 3):
                obs.append(ob_p_nomut(op, k, 600))
        for op in sorted(TG_OPS):
            obs.append(ob_tg_nomut(op, 1200))
        obs.append(ob_tg_mutators(600))
        obs.append(ob_insert_invalid_option("point", 600))
        obs.append(ob_insert_invalid_option("interval", 600))
        for fmt in ("short_textgrid", "long_textgrid", "json", "textgrid_json"):
            for bl in (True, False):
                for v in SAVE_VARIANTS:
                    obs.append(ob_save(fmt, bl, v, 1200))
    return obs
