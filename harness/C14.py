"""C14 - boundary adjusters move times only as far as allowed and keep labels."""
from engine.hlib import *  # noqa

from praatio.data_classes.interval_tier import IntervalTier
from praatio.data_classes.point_tier import PointTier
from praatio.data_classes.textgrid import Textgrid
from praatio.utilities.constants import Interval, Point
from praatio.utilities import errors
from praatio import praatio_scripts

FUNCS = [
    "praatio.data_classes.interval_tier.IntervalTier.dejitter",
    "praatio.data_classes.point_tier.PointTier.dejitter",
    "praatio.praatio_scripts.alignBoundariesAcrossTiers",
    "praatio.data_classes.interval_tier.IntervalTier.morph",
    "praatio.utilities.my_math.lessThanOrEqual/isclose",
    "praatio.utilities.utils.safeZip",
]
ASSUMPTIONS = [
    "real mode: timestamps equal or >= 2^-16 apart; every |t - ref| is equal to maxDifference or >= 2^-16 away from it (tolerant <= equals exact <=)",
    "equidistant reference candidates: any nearest candidate is accepted (tie-breaking outside the claim)",
]


def _ts(k, p=""):
    return [n for i in range(k) for n in (p + "s%d" % i, p + "e%d" % i)]


def _sepD(D, ts, refs):
    ok = True
    for t in ts:
        for r in refs:
            for x in (t - r, r - t):
                y = x - D
                ok = ok & ((y == 0) | (y >= EPS) | (y <= -EPS))
    return ok


def _move_ok(t, new, refs, D):
    """new is the correct image of t: nearest ref iff within D (inclusive), else t"""
    if not refs:
        return new == t
    best = None
    for r in refs:
        d = r - t if r >= t else t - r
        if best is None or d < best:
            best = d
    if best <= D:
        dn = new - t if new >= t else t - new
        return (dn == best) and any(new == r for r in refs)
    return new == t


def ob_dejitter_interval(k, nref, refkind, timeout):
    names = ["D", "hi"] + _ts(k) + ["r%d" % i for i in range(nref)]

    def pre(D, hi, *rest):
        ts, rs = rest[: 2 * k], rest[2 * k:]
        ok = ivs_wf_pre(0.0, hi, *ts) & (hi <= 512.0) & (D > 0) & (D <= 512.0) & sep(0.0, hi, *rest) & _sepD(D, ts, rs)
        if refkind == "point":
            ok = ok & pts_wf_pre(0.0, hi, *rs)
        else:
            ok = ok & ivs_wf_pre(0.0, hi, *rs)
        return ok

    def body(D, hi, *rest):
        ts, rs = rest[: 2 * k], rest[2 * k:]
        tier = IntervalTier("t", mk_ivs(ts), 0.0, hi)
        if refkind == "point":
            ref = PointTier("r", [Point(r, "m") for r in rs], 0.0, hi)
        else:
            ref = IntervalTier("r", [Interval(rs[2 * i], rs[2 * i + 1], "m") for i in range(len(rs) // 2)], 0.0, hi)
        b1, b2 = snap_tier(tier), snap_tier(ref)
        refs = list(rs)
        # what must happen
        def img(t):
            best, arg = None, t
            for r in refs:
                d = r - t if r >= t else t - r
                if best is None or d < best:
                    best, arg = d, r
            return arg if (best is not None and best <= D) else t

        moved = [(img(ts[2 * i]), img(ts[2 * i + 1])) for i in range(k)]
        must_raise = any(s >= e for s, e in moved) or any(moved[i][1] > moved[i + 1][0] for i in range(k - 1))
        try:
            r = tier.dejitter(ref, D)
        except errors.PraatioException:
            if snap_tier(tier) != b1 or snap_tier(ref) != b2:
                return "operand mutated"
            return True if must_raise else "raised although the adjusted tier is well-formed"
        if snap_tier(tier) != b1 or snap_tier(ref) != b2:
            return "operand mutated"
        if not wf_interval(r):
            return "ill-formed tier returned"
        es = r.entries
        if len(es) != k:
            return "entry count changed"
        for i in range(k):
            if es[i][2] != LABELS[i]:
                return "labels/order changed"
            if not _move_ok(ts[2 * i], es[i][0], refs, D) or not _move_ok(ts[2 * i + 1], es[i][1], refs, D):
                return "timestamp not moved to the nearest reference iff within maxDifference"
        if (r.minTimestamp, r.maxTimestamp) != (0.0, hi):
            return "span changed"
        return True

    return Ob("dejitter-i%d-%s%d" % (k, refkind, nref), F(*names), body, pre, fmode="real", timeout=timeout, funcs=[FUNCS[0], FUNCS[4]],
              canaries=[{"target": "praatio.utilities.my_math:lessThanOrEqual", "find": "return isclose(a, b) or a < b", "replace": "return a < b"}] if (k, nref) == (1, 2) else [],
              bounds="interval tier k=%d, %s reference with %d timestamps, 0<maxDifference<=512" % (k, refkind, nref))


def ob_dejitter_point(k, nref, timeout, labels=LABELS, tag="", known=None):
    names = ["D", "hi"] + ["t%d" % i for i in range(k)] + ["r%d" % i for i in range(nref)]

    def pre(D, hi, *rest):
        ts, rs = rest[:k], rest[k:]
        return pts_wf_pre(0.0, hi, *ts) & pts_wf_pre(0.0, hi, *rs) & (hi <= 512.0) & (D > 0) & (D <= 512.0) & sep(0.0, hi, *rest) & _sepD(D, ts, rs)

    def body(D, hi, *rest):
        ts, rs = rest[:k], rest[k:]
        tier = PointTier("p", [Point(ts[i], labels[i]) for i in range(k)], 0.0, hi)
        ref = PointTier("r", [Point(r, "m") for r in rs], 0.0, hi)
        b1, b2 = snap_tier(tier), snap_tier(ref)
        r = tier.dejitter(ref, D)
        if snap_tier(tier) != b1 or snap_tier(ref) != b2:
            return "operand mutated"
        es = r.entries
        if len(es) != k:
            return "entry count changed"
        for i in range(k):
            if es[i][1] != labels[i]:
                return "labels/order changed"
            if not _move_ok(ts[i], es[i][0], list(rs), D):
                return "timestamp not moved to the nearest reference iff within maxDifference"
        return True

    return Ob("dejitter-p%d-point%d%s" % (k, nref, tag), F(*names), body, pre, fmode="real", timeout=timeout, funcs=[FUNCS[1], FUNCS[4]], known=known, bounds="point tier k=%d (labels %s), point reference with %d timestamps" % (k, ",".join(labels[:k]), nref))


def ob_align(kind, timeout):
    """kind: 'interval' (tiers i, ref) | 'point' (tiers ref, p) | 'both' (i, ref, p)"""
    use_i, use_p = kind in ("interval", "both"), kind in ("point", "both")
    names = ["D", "hi", "r0", "r1"] + (["s0", "e0"] if use_i else []) + (["p0"] if use_p else [])

    def split(rest):
        rest = list(rest)
        iv = (rest.pop(0), rest.pop(0)) if use_i else None
        p0 = rest.pop(0) if use_p else None
        return iv, p0

    def pre(D, hi, r0, r1, *rest):
        iv, p0 = split(rest)
        ok = pts_wf_pre(0.0, hi, r0, r1) & (hi <= 512.0) & (D > 0) & (D <= 512.0) & sep(0.0, hi, r0, r1, *rest) & _sepD(D, rest, (r0, r1))
        if use_i:
            ok = ok & ivs_wf_pre(0.0, hi, *iv)
        if use_p:
            ok = ok & within(0.0, hi, p0)
        return ok

    def body(D, hi, r0, r1, *rest):
        iv, p0 = split(rest)
        tg = Textgrid(0.0, hi)
        ref = PointTier("ref", [Point(r0, "m"), Point(r1, "n")], 0.0, hi)
        it = IntervalTier("i", [Interval(iv[0], iv[1], "x")], 0.0, hi) if use_i else None
        pt = PointTier("p", [Point(p0, "q")], 0.0, hi) if use_p else None
        order = [t for t in (it, ref, pt) if t is not None]
        for t in order:
            tg.addTier(t)
        bref = snap_tier(ref)
        try:
            r = praatio_scripts.alignBoundariesAcrossTiers(tg, "ref", D)
        except errors.ArgumentError:
            return True if (r1 - r0 < D) else "ArgumentError although reference spacing >= maxDifference"
        except errors.PraatioException:
            if not use_i:
                return "raised for a point tier"
            try:
                it.dejitter(ref, D)
            except errors.PraatioException:
                return True
            return "raised although every adjusted tier is well-formed"
        if list(r.tierNames) != [t.name for t in order]:
            return "tier order"
        if snap_tier(r.getTier("ref")) != bref:
            return "reference tier changed"
        refs = [r0, r1]
        if use_i:
            ei = r.getTier("i").entries
            if len(ei) != 1 or ei[0][2] != "x":
                return "count/labels"
            if not (_move_ok(iv[0], ei[0][0], refs, D) and _move_ok(iv[1], ei[0][1], refs, D)):
                return "interval tier is not its dejitter"
        if use_p:
            ep = r.getTier("p").entries
            if len(ep) != 1 or ep[0][1] != "q":
                return "count/labels"
            if not _move_ok(p0, ep[0][0], refs, D):
                return "point tier is not its dejitter"
        return True

    return Ob("align-%s-ref2" % kind, F(*names), body, pre, fmode="real", timeout=timeout, funcs=FUNCS[:3], bounds="textgrid: %s tier(s) with 1 entry + point reference tier with 2 timestamps" % kind)


def ob_align_tiny_jitter(timeout):
    """no separation assumed: a timestamp that differs from the reference by however little
    (float noise included) is moved onto it, exactly - the result is compared as plain numbers,
    not with the library's tolerant ==; clearly-inside and clearly-outside cases only
    (|t-r| <= D/2 or |t-r| >= 2D), so the tolerant <= at the edge plays no role"""
    names = ["D", "hi", "r0", "p0", "s0", "e0"]

    def pre(D, hi, r0, p0, s0, e0):
        return within(0.0, hi, r0, p0) & ivs_wf_pre(0.0, hi, s0, e0) & (hi <= 512.0) & (D > 0) & (D <= 512.0) & ((e0 - s0) >= 4 * D)

    def near(t, r, D):
        d = t - r if t >= r else r - t
        return 1 if 2 * d <= D else (0 if d >= 2 * D else None)

    def body(D, hi, r0, p0, s0, e0):
        tg = Textgrid(0.0, hi)
        tg.addTier(PointTier("p", [Point(p0, "q")], 0.0, hi))
        tg.addTier(PointTier("ref", [Point(r0, "m")], 0.0, hi))
        tg.addTier(IntervalTier("i", [Interval(s0, e0, "x")], 0.0, hi))
        r = praatio_scripts.alignBoundariesAcrossTiers(tg, "ref", D)
        got = [r.getTier("p").entries[0][0], r.getTier("i").entries[0][0], r.getTier("i").entries[0][1]]
        for t, g in zip((p0, s0, e0), got):
            n = near(t, r0, D)
            if n == 1 and g != r0:
                return "a timestamp within maxDifference/2 of the reference was not moved onto it"
            if n == 0 and g != t:
                return "a timestamp further than 2 maxDifference from the reference was moved"
        return True

    return Ob("align-tiny-jitter", F(*names), body, pre, fmode="real", timeout=timeout, funcs=FUNCS[:3], bounds="point tier, interval tier (length >= 4 maxDifference) and a one-point reference; no separation assumption (jitter may be arbitrarily small)")


def ob_dejitter_point_edge_ieee(timeout):
    """binary64: a point whose distance to the reference, as the subtraction computes it, is at
    most maxDifference is moved (the documented inclusive bound), however the two sums
    t + maxDifference / t - maxDifference happen to round"""

    def pre(D, hi, t, r):
        return finite(D, hi, t, r) & (0.0 <= t) & (t <= hi) & (0.0 <= r) & (r <= hi) & (hi <= 1048576.0) & (D > 0) & (D <= 1048576.0)

    def body(D, hi, t, r):
        tier = PointTier("p", [Point(t, "q")], 0.0, hi)
        ref = PointTier("ref", [Point(r, "m")], 0.0, hi)
        g = tier.dejitter(ref, D).entries[0][0]
        d = t - r if t >= r else r - t
        if d <= D and g != r:
            return "a point at most maxDifference from the reference was not moved"
        if d > 2 * D and g != t:
            return "a point further than 2 maxDifference from the reference was moved"
        return True

    return Ob("dejitter-point-edge-ieee", F("D", "hi", "t", "r"), body, pre, fmode="ieee", timeout=timeout, funcs=[FUNCS[1]], bounds="one point, one reference point, all binary64 values in [0, 2^20]")


def ob_morph(k, filt, labels, timeout):
    names = ["lo", "hi"] + _ts(k) + _ts(k, "t")

    def pre(lo, hi, *rest):
        ts, tt = rest[: 2 * k], rest[2 * k:]
        return ivs_wf_pre(lo, hi, *ts) & ivs_wf_pre(0.0, 512.0, *tt) & (hi <= 512.0) & (0.0 <= lo)

    filters = {"none": None, "all": lambda l: True, "nothing": lambda l: False, "by-label": lambda l: l == labels[0]}

    def body(lo, hi, *rest):
        ts, tt = rest[: 2 * k], rest[2 * k:]
        src = IntervalTier("s", mk_ivs(ts, labels), lo, hi)
        tgt = IntervalTier("g", mk_ivs(tt, ["p", "q", "r"]), 0.0, 512.0)
        b1, b2 = snap_tier(src), snap_tier(tgt)
        f = filters[filt]
        r = src.morph(tgt, f)
        if snap_tier(src) != b1 or snap_tier(tgt) != b2:
            return "operand mutated"
        es = r.entries
        if len(es) != k:
            return "entry count"
        for i in range(k):
            s, e, l = es[i]
            if l != labels[i]:
                return "labels"
            sel = f is None or f(labels[i])
            dur = (tt[2 * i + 1] - tt[2 * i]) if sel else (ts[2 * i + 1] - ts[2 * i])
            if e - s != dur:
                return "duration of interval %d" % i
            if i == 0:
                if s != ts[0]:
                    return "first start"
            else:
                if s - es[i - 1][1] != ts[2 * i] - ts[2 * i - 1]:
                    return "gap before interval %d" % i
        if k > 0 and r.maxTimestamp - es[-1][1] != hi - ts[-1]:
            return "trailing gap"
        if r.minTimestamp != lo:
            return "span start"
        return True

    return Ob("morph-k%d-%s%s" % (k, filt, "-blanklabel" if "" in labels[:k] else ""), F(*names), body, pre, fmode="real", timeout=timeout, funcs=[FUNCS[3], FUNCS[5]], bounds="source and target with %d intervals each, labels %r, filter %s; exact reals" % (k, labels[:k], filt),
              canaries=[{"target": "praatio.data_classes.interval_tier:IntervalTier.morph", "find": "newStart = sourceInterval.start + cumulativeAdjustAmount", "replace": "newStart = sourceInterval.start"}] if (k == 2 and filt == "none" and "" not in labels[:k]) else [])


def ob_dejitter_after_reference_edit(timeout):
    """state carried between calls: after the reference tier's timestamps have been read once
    and the reference was then edited (deleteEntry), dejitter uses the reference as it is NOW"""
    names = ["D", "hi", "s0", "e0", "r0", "r1"]

    def pre(D, hi, s0, e0, r0, r1):
        return ivs_wf_pre(0.0, hi, s0, e0) & pts_wf_pre(0.0, hi, r0, r1) & (hi <= 512.0) & (D > 0) & (D <= 512.0) & sep(0.0, hi, s0, e0, r0, r1) & _sepD(D, (s0, e0), (r0, r1))

    def body(D, hi, s0, e0, r0, r1):
        tier = IntervalTier("t", [Interval(s0, e0, "x")], 0.0, hi)
        ref = PointTier("r", [Point(r0, "m"), Point(r1, "n")], 0.0, hi)
        ref.timestamps  # first read (what a first dejitter / alignBoundariesAcrossTiers does)
        ref.deleteEntry(ref.entries[0])
        if ref.timestamps != [r1]:
            return "timestamps of the edited reference are stale"
        try:
            got = tuples(tier.dejitter(ref, D).entries)
        except errors.PraatioException:
            got = "raise"
        ns = r1 if (r1 - s0 if r1 >= s0 else s0 - r1) <= D else s0
        ne = r1 if (r1 - e0 if r1 >= e0 else e0 - r1) <= D else e0
        want = "raise" if ns >= ne else [(ns, ne, "x")]
        return True if got == want else "dejitter used timestamps the reference no longer has"

    return Ob("dejitter-after-reference-edit", F(*names), body, pre, fmode="real", timeout=timeout, funcs=FUNCS[:2] + ["PointTier.timestamps/deleteEntry"], bounds="interval tier k=1, point reference with 2 points: read timestamps; delete the first point; dejitter")


def ob_dejitter_empty_reference(timeout):
    """empty references are error cases: a praatio error (not a bare ValueError from min()),
    operands untouched; a tier that has nothing to adjust is returned unchanged"""

    def body(hi, s0, e0):
        for refkind in ("interval", "point"):
            ref = IntervalTier("r", [], 0.0, hi) if refkind == "interval" else PointTier("r", [], 0.0, hi)
            for tier in (IntervalTier("t", [Interval(s0, e0, "x")], 0.0, hi), PointTier("p", [Point(s0, "x")], 0.0, hi)):
                before = snap_tier(tier)
                try:
                    tier.dejitter(ref, 0.25)
                except errors.PraatioException:
                    if snap_tier(tier) != before:
                        return "operand mutated"
                    continue
                return "a reference tier without entries was accepted"
            for empty in (IntervalTier("t", [], 0.0, hi), PointTier("p", [], 0.0, hi)):
                if len(empty.dejitter(ref, 0.25).entries) != 0:
                    return "empty tier against an empty reference"
        return True

    return Ob("dejitter-empty-reference", F("hi", "s0", "e0"), body, lambda hi, s0, e0: ivs_wf_pre(0.0, hi, s0, e0) & (hi <= 512.0), fmode="real", timeout=timeout, funcs=FUNCS[:2], bounds="interval and point tiers (one entry, and none) against interval and point references without entries")


def ob_morph_mismatch(timeout):
    def body(hi, s0, e0):
        one = IntervalTier("s", [Interval(s0, e0, "x")], 0.0, hi)
        none = IntervalTier("g", [], 0.0, hi)
        for src, tgt in ((one, none), (none, one)):
            try:
                src.morph(tgt)
            except errors.SafeZipException:
                continue
            return "mismatched entry counts accepted (%d vs %d)" % (len(src.entries), len(tgt.entries))
        return True

    return Ob("morph-mismatched-counts", F("hi", "s0", "e0"), body, lambda hi, s0, e0: ivs_wf_pre(0.0, hi, s0, e0) & (hi <= 512.0), fmode="real", timeout=timeout, funcs=[FUNCS[3], FUNCS[5]], bounds="1 vs 0 and 0 vs 1 intervals")


def obligations(tier):
    obs = []
    if tier == "quick":
        obs.append(ob_dejitter_interval(1, 2, "point", 400))
        obs.append(ob_dejitter_interval(1, 2, "interval", 400))
        obs.append(ob_dejitter_point(2, 2, 300))
        obs.append(ob_dejitter_point(2, 1, 300, labels=["y", "x"], tag="-labels-desc", known="KF-C14-simultaneous-points-reordered"))
        obs.append(ob_align_tiny_jitter(300))
        obs.append(ob_align("interval", 400))
        obs.append(ob_align("point", 400))
        for f in ("none", "by-label"):
            obs.append(ob_morph(2, f, ["x", "y"], 120))
        obs.append(ob_morph(2, "none", ["x", ""], 120))
        obs.append(ob_morph(2, "nothing", ["x", "y"], 120))
        obs.append(ob_morph_mismatch(30))
        obs.append(ob_dejitter_empty_reference(60))
        obs.append(ob_dejitter_after_reference_edit(400))
    else:
        obs.append(ob_dejitter_after_reference_edit(2400))
        for k, n in ((1, 1), (1, 2), (1, 3), (2, 1), (2, 2)):
            obs.append(ob_dejitter_interval(k, n, "point", 2400))
        obs.append(ob_dejitter_interval(1, 2, "interval", 2400))
        obs.append(ob_dejitter_interval(2, 2, "interval", 2400))
        for k, n in ((1, 1), (2, 2), (3, 2), (2, 3)):
            obs.append(ob_dejitter_point(k, n, 1200))
        obs.append(ob_dejitter_point(2, 2, 1200, labels=["y", "x"], tag="-labels-desc", known="KF-C14-simultaneous-points-reordered"))
        obs.append(ob_align_tiny_jitter(1200))
        obs.append(ob_dejitter_point_edge_ieee(1800))
        for kd in ("interval", "point", "both"):
            obs.append(ob_align(kd, 3000))
        for f in ("none", "all", "nothing", "by-label"):
            for k in (1, 2, 3):
                obs.append(ob_morph(k, f, ["x", "y", "z"], 600))
        obs.append(ob_morph(2, "none", ["x", ""], 600))
        obs.append(ob_morph(3, "all", ["", "y", ""], 600))
        obs.append(ob_morph_mismatch(30))
        obs.append(ob_dejitter_empty_reference(60))
    from harness import fp_kernels

    obs += fp_kernels.c14_obligations(tier)
    return obs
