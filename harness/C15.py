"""C15 - queries and derived views agree with their definitions."""
import re

from engine.hlib import *  # noqa

from praatio.data_classes.interval_tier import IntervalTier
from praatio.data_classes.point_tier import PointTier
from praatio.data_classes.textgrid import Textgrid
from praatio.utilities.constants import Interval, Point
from praatio.utilities import errors, utils

FUNCS = [
    "praatio.data_classes.textgrid_tier.TextgridTier.find",
    "praatio.data_classes.interval_tier.IntervalTier.getNonEntries",
    "IntervalTier.timestamps / PointTier.timestamps",
    "IntervalTier.getValuesInIntervals / utils.getValuesInInterval",
    "PointTier.getValuesAtPoints / utils.getValueAtTime",
    "praatio.utilities.utils.intervalOverlapCheck",
    "praatio.utilities.utils.invertIntervalList",
    "TextgridTier.__eq__ / Textgrid.__eq__ / Interval.__eq__ / Point.__eq__",
    "IntervalTier.validate / PointTier.validate / Textgrid.validate",
]
ALPHA = "aAb."
ASSUMPTIONS = [
    "find: labels and queries over the alphabet {a,A,b,.}, length <= 2 (quick) / 3 (thorough); regex queries from a fixed list (a symbolic pattern is concretised by CrossHair's re model)",
]


def _ts(k, p=""):
    return [n for i in range(k) for n in (p + "s%d" % i, p + "e%d" % i)]


# ------------------------------------------------------------------------------- find
def ob_find(maxlen, timeout):
    def pre(l0, l1, q):
        return in_alphabet(l0, ALPHA, maxlen) and in_alphabet(l1, ALPHA, maxlen) and in_alphabet(q, ALPHA, maxlen) and l0 == l0.strip() and l1 == l1.strip()

    def body(l0, l1, q):
        tier = IntervalTier("t", [Interval(0.0, 1.0, l0), Interval(1.0, 2.0, l1)], 0.0, 2.0)
        pt = PointTier("p", [Point(0.5, l0), Point(1.5, l1)], 0.0, 2.0)
        labs = [l0, l1]
        if tier.find(q) != [i for i in range(2) if labs[i] == q]:
            return "exact match"
        if tier.find(q, substrMatchFlag=True) != [i for i in range(2) if q in labs[i]]:
            return "substring match"
        if pt.find(q) != tier.find(q) or pt.find(q, True) != tier.find(q, True):
            return "point tier find"
        return True

    return Ob("find-exact-substr-len%d" % maxlen, S("l0", "l1", "q"), body, pre, timeout=timeout, funcs=FUNCS[:1], bounds="2 entries, labels and query <= %d chars over {a,A,b,.}" % maxlen)


REGEXES = ["^a+b?$", "a.", "[ab]{2}", "b$", r"\.", "A"]


def _ref_match(pat, s):
    """independent matcher for the fixed regex list (case-insensitive, search semantics)"""
    t = s.lower()
    if pat == "^a+b?$":
        i = 0
        while i < len(t) and t[i] == "a":
            i += 1
        if i == 0:
            return False
        return t[i:] in ("", "b")
    if pat == "a.":
        return any(t[i] == "a" and t[i + 1] != "\n" for i in range(len(t) - 1))
    if pat == "[ab]{2}":
        return any(t[i] in "ab" and t[i + 1] in "ab" for i in range(len(t) - 1))
    if pat == "b$":
        return t.endswith("b")
    if pat == r"\.":
        return "." in t
    if pat == "A":
        return "a" in t
    raise AssertionError(pat)


def ob_find_re(pat, maxlen, timeout):
    def pre(l0):
        return in_alphabet(l0, ALPHA, maxlen) and l0 == l0.strip()

    def body(l0):
        tier = IntervalTier("t", [Interval(0.0, 1.0, l0), Interval(1.0, 2.0, "ab")], 0.0, 2.0)
        want = [i for i, l in enumerate([l0, "ab"]) if _ref_match(pat, l)]
        if tier.find(pat, usingRE=True) != want:
            return "regex match"
        # usingRE=True: the query IS a regular expression, whatever substrMatchFlag says
        if tier.find(pat, True, True) != want or tier.find(pat, substrMatchFlag=False, usingRE=True) != want:
            return "regex match with substrMatchFlag also given"
        return True

    return Ob("find-re-%d" % REGEXES.index(pat), S("l0"), body, pre, timeout=timeout, funcs=FUNCS[:1], bounds="regex %r (re.I), symbolic label <= %d chars" % (pat, maxlen))


# ---------------------------------------------------------------------- getNonEntries
def ob_nonentries(k, timeout):
    names = ["lo", "hi"] + _ts(k)

    def pre(lo, hi, *ts):
        return ivs_wf_pre(lo, hi, *ts) & finite(hi) & (0.0 <= lo)

    def body(lo, hi, *ts):
        tier = IntervalTier("t", mk_ivs(ts), lo, hi)  # the tier's own span may start after 0
        ne = tuples(tier.getNonEntries())
        for (s, e, l) in ne:
            if not s < e:
                return "non-entry without positive length"
            if l != "":
                return "non-entry labelled"
        allv = sorted(tuples(tier.entries) + ne)
        pos = 0.0
        for (s, e, l) in allv:
            if s != pos:
                return "entries + non-entries do not tile [0, max]"
            pos = e
        if pos != hi:
            return "tiling does not end at maxTimestamp"
        return True

    return Ob("nonentries-k%d" % k, F(*names), body, pre, fmode="ieee", timeout=timeout, funcs=FUNCS[1:2], bounds="k=%d intervals, all finite binary64 timestamps" % k,
              canaries=[{"target": "praatio.data_classes.interval_tier:IntervalTier.getNonEntries", "find": "if interval.start < interval.end", "replace": "if interval.start <= interval.end"}] if k == 2 else [])


def ob_timestamps_after_edit(timeout):
    """derived views after in-place edits: timestamps / getNonEntries / find of an edited
    tier equal those of an equal freshly constructed tier (no state carried over)"""
    names = ["hi", "s0", "e0", "s1", "e1", "ns", "ne"]

    def pre(hi, s0, e0, s1, e1, ns, ne):
        return ivs_wf_pre(0.0, hi, s0, e0, s1, e1) & (hi <= 512.0) & (0.0 <= ns) & (ns < ne) & (ne <= hi) & sep(0.0, hi, s0, e0, s1, e1, ns, ne)

    def body(hi, s0, e0, s1, e1, ns, ne):
        t = IntervalTier("t", [Interval(s0, e0, "x"), Interval(s1, e1, "y")], 0.0, hi)
        t.timestamps
        t.getNonEntries()
        t.deleteEntry(t.entries[0])
        f = IntervalTier("t", [Interval(*e) for e in t.entries], 0.0, hi)
        if t.timestamps != f.timestamps or tuples(t.getNonEntries()) != tuples(f.getNonEntries()):
            return "stale view after deleteEntry"
        t.insertEntry(Interval(ns, ne, "n"), "merge", "silence")
        f = IntervalTier("t", [Interval(*e) for e in t.entries], t.minTimestamp, t.maxTimestamp)
        if t.timestamps != f.timestamps or tuples(t.getNonEntries()) != tuples(f.getNonEntries()) or t.find("n") != f.find("n"):
            return "stale view after insertEntry"
        p = PointTier("p", [Point(s0, "x"), Point(s1, "y")], 0.0, hi)
        p.timestamps
        p.deleteEntry(p.entries[1])
        if p.timestamps != [s0]:
            return "stale point-tier timestamps after deleteEntry"
        return True

    return Ob("views-after-edit", F(*names), body, pre, fmode="real", timeout=timeout, funcs=FUNCS[1:3] + ["IntervalTier.deleteEntry/insertEntry"], bounds="2 intervals; read views, delete, read, insert (merge), read")


def ob_timestamps(k, timeout):
    names = ["hi"] + _ts(k)

    def pre(hi, *ts):
        return ivs_wf_pre(0.0, hi, *ts) & (hi <= 1024.0)

    def body(hi, *ts):
        tier = IntervalTier("t", mk_ivs(ts), 0.0, hi)
        got = tier.timestamps
        want = []
        for t in sorted(ts):
            if not want or want[-1] != t:
                want.append(t)
        if got != want:
            return "interval tier timestamps"
        pt = PointTier("p", [Point(ts[i], "x") for i in range(0, len(ts), 2)], 0.0, hi)
        wantp = []
        for t in sorted(ts[0::2]):
            if not wantp or wantp[-1] != t:
                wantp.append(t)
        if pt.timestamps != wantp:
            return "point tier timestamps"
        return True

    return Ob("timestamps-k%d" % k, F(*names), body, pre, fmode="real", timeout=timeout, funcs=FUNCS[2:3], bounds="k=%d" % k)


# ------------------------------------------------------------------ values in intervals
def ob_values_in_intervals(k, n, timeout):
    names = ["hi"] + _ts(k) + ["x%d" % i for i in range(n)]

    def pre(hi, *rest):
        return ivs_wf_pre(0.0, hi, *rest[: 2 * k]) & finite(*rest) & finite(hi)

    def body(hi, *rest):
        ts, xs = rest[: 2 * k], rest[2 * k:]
        tier = IntervalTier("t", mk_ivs(ts), 0.0, hi)
        data = [(xs[i], "v%d" % i) for i in range(n)]
        got = tier.getValuesInIntervals(data)
        if len(got) != k:
            return "one result per interval"
        for i in range(k):
            iv, rows = got[i]
            if tuple(iv) != (ts[2 * i], ts[2 * i + 1], LABELS[i]):
                return "interval"
            want = [d for d in data if ts[2 * i] <= d[0] and d[0] <= ts[2 * i + 1]]
            if rows != want:
                return "samples with start <= t <= end"
        return True

    return Ob("values-in-intervals-k%d-n%d" % (k, n), F(*names), body, pre, fmode="ieee", timeout=timeout, funcs=FUNCS[3:4], bounds="k=%d intervals, %d samples in any order (ties and boundary hits included)" % (k, n),
              canaries=[{"target": "praatio.utilities.utils:getValuesInInterval", "find": "if start <= time and end >= time:", "replace": "if start <= time and end > time:"}] if (k, n) == (2, 2) else [])


def ob_values_at_points(k, n, fuzzy, timeout, shuffled=False):
    names = ["p%d" % i for i in range(k)] + ["x%d" % i for i in range(n)]

    def pre(*rest):
        ps, xs = rest[:k], rest[k:]
        return pts_wf_pre(0.0, 1024.0, *ps) & pts_wf_pre(0.0, 1024.0, *xs)

    def body(*rest):
        ps, xs = rest[:k], rest[k:]
        tier = PointTier("p", [Point(ps[i], LABELS[i]) for i in range(k)], 0.0, 1024.0)
        data = [(xs[i], "v%d" % i) for i in range(n)]
        if shuffled:  # the series is handed over out of time order (last first, then every other one)
            data = data[::-2] + data[-2::-2] if n > 1 else data
            if sorted(data) == data and n > 1:
                return "harness: permutation is the identity"
        got = tier.getValuesAtPoints(data, fuzzy)
        if len(got) != k:
            return "one row per point"
        for i in range(k):
            if not fuzzy:
                want = [d for d in data if d[0] == ps[i]]
                if (list(got[i]) and got[i] != want[0]) if want else (got[i] != ()):
                    return "exact lookup"
                if want and got[i] != want[0]:
                    return "exact lookup"
            else:
                best = min(abs(d[0] - ps[i]) for d in data)
                if not got[i] or abs(got[i][0] - ps[i]) != best:
                    return "fuzzy lookup is not a nearest sample"
        return True

    return Ob("values-at-points-k%d-n%d-%s%s" % (k, n, "fuzzy" if fuzzy else "exact", "-shuffled" if shuffled else ""), F(*names), body, pre, fmode="real", timeout=timeout, funcs=FUNCS[4:5], bounds="%d points, %d distinct samples given %s" % (k, n, "out of time order" if shuffled else "in time order"))


# ------------------------------------------------------------------- interval helpers
def ob_overlap(variant, timeout):
    names = ["a0", "a1", "b0", "b1", "thr"]

    def pre(a0, a1, b0, b1, thr):
        return (a0 < a1) & (b0 < b1) & within(0.0, 1024.0, a0, a1, b0, b1) & (thr > 0) & (thr <= 1024.0)

    def body(a0, a1, b0, b1, thr):
        A, Bv = Interval(a0, a1, "x"), Interval(b0, b1, "y")
        lo = a0 if a0 > b0 else b0
        hi = a1 if a1 < b1 else b1
        ov = hi - lo if hi > lo else 0
        if variant == "plain":
            if utils.intervalOverlapCheck(A, Bv) != (ov > 0):
                return "overlap test"
            if utils.intervalOverlapCheck(A, Bv) != utils.intervalOverlapCheck(Bv, A):
                return "symmetry"
        elif variant == "boundary":
            want = (ov > 0) or a0 == b1 or a1 == b0
            if utils.intervalOverlapCheck(A, Bv, boundaryInclusive=True) != want:
                return "boundary inclusive"
        elif variant == "time":
            if utils.intervalOverlapCheck(A, Bv, timeThreshold=thr) != (ov > 0 and ov >= thr):
                return "time threshold"
        else:
            total = (a1 if a1 > b1 else b1) - (a0 if a0 < b0 else b0)
            want = ov > 0 and ov >= thr * total
            if thr <= 1 and utils.intervalOverlapCheck(A, Bv, percentThreshold=thr) != want:
                return "percent threshold"
        return True

    return Ob("overlapcheck-%s" % variant, F(*names), body, pre, fmode="real", timeout=timeout, funcs=FUNCS[5:6], bounds="one pair of intervals in [0,1024]; threshold in (0,1024] (percent: (0,1])")


def ob_invert(k, bounds_kind, timeout):
    names = ["lo", "hi"] + _ts(k)

    def pre(lo, hi, *ts):
        ok = finite(lo, hi, *ts) & (lo < hi)  # bounds form a proper interval
        # intervals individually valid and sorted+disjoint, inside the bounds when given
        ok = ok & ivs_wf_pre(lo, hi, *ts)
        return ok

    def body(lo, hi, *ts):
        ivs = [(ts[2 * i], ts[2 * i + 1]) for i in range(k)]
        mn = lo if bounds_kind in ("both", "min") else None
        mx = hi if bounds_kind in ("both", "max") else None
        if k == 0 and bounds_kind != "both":
            return True  # complement of nothing without both bounds is not defined
        got = utils.invertIntervalList(list(reversed(ivs)), mn, mx)
        want = []
        pos = mn
        for (s, e) in ivs:
            if pos is not None and pos < s:
                want.append((pos, s))
            pos = e
        if mx is not None and pos is not None and pos < mx:
            want.append((pos, mx))
        if [tuple(g) for g in got] != want:
            return "complement within bounds"
        return True

    return Ob("invert-k%d-%s" % (k, bounds_kind), F(*names), body, pre, fmode="ieee", timeout=timeout, funcs=FUNCS[6:7], bounds="%d intervals given in reverse order, bounds: %s; all finite binary64" % (k, bounds_kind))


def ob_invert_malformed(timeout):
    def body(s0, e0):
        try:
            utils.invertIntervalList([(s0, e0)], 0.0, 10.0)
        except errors.ArgumentError:
            return True if s0 >= e0 else "ArgumentError for a valid interval"
        return True if s0 < e0 else "malformed interval accepted"

    return Ob("invert-malformed", F("s0", "e0"), body, lambda s0, e0: within(0.0, 10.0, s0, e0), fmode="ieee", timeout=timeout, funcs=FUNCS[6:7], bounds="one interval, any order of its ends")


# ------------------------------------------------------------------------- equality
def ob_eq(timeout):
    names = ["hi", "s0", "e0", "s1", "e1", "d"]

    def pre(hi, s0, e0, s1, e1, d):
        # perturbation d is far beyond rounding noise: |d| >= 2^-10 on values >= 1
        return ivs_wf_pre(1.0, hi, s0, e0, s1, e1) & (hi <= 512.0) & ((d >= 2.0 ** -10) | (d <= -(2.0 ** -10))) & within(-512.0, 512.0, d)

    def body(hi, s0, e0, s1, e1, d):
        def mk(name="t", ents=None, lo=1.0, mx=None):
            return IntervalTier(name, ents if ents is not None else [Interval(s0, e0, "x"), Interval(s1, e1, "y")], lo, hi if mx is None else mx)

        base = mk()
        if not (base == base and base == mk() and mk() == base):
            return "reflexive/symmetric"
        variants = {
            "name": mk(name="u"),
            "label": mk(ents=[Interval(s0, e0, "x"), Interval(s1, e1, "z")]),
            "count": mk(ents=[Interval(s0, e0, "x")]),
            "max": mk(mx=hi + (d if d > 0 else -d)),
        }
        try:
            variants["time"] = mk(ents=[Interval(s0, e0 + d, "x"), Interval(s1, e1, "y")])
        except errors.PraatioException:
            pass
        for what, v in variants.items():
            if base == v or v == base:
                return "equality blind to a change of " + what
        pt = PointTier("t", [Point(s0, "x"), Point(s1, "y")], 1.0, hi)
        if pt == base or base == pt:
            return "interval tier equals point tier"
        if not (pt == PointTier("t", [Point(s0, "x"), Point(s1, "y")], 1.0, hi)):
            return "point tier reflexive"
        if pt == PointTier("t", [Point(s0 + d, "x"), Point(s1, "y")], 1.0, hi):
            if s0 + d != s0:
                return "point tier equality blind to a time change"
        # textgrids
        def tg(t1, t2, mx=hi):
            g = Textgrid(1.0, mx)
            g.addTier(t1, reportingMode="silence")
            g.addTier(t2, reportingMode="silence")
            return g

        p2 = PointTier("p", [Point(s0, "x")], 1.0, hi)
        g0 = tg(mk(), p2)
        if not (g0 == g0 and g0 == tg(mk(), p2)):
            return "textgrid reflexive"
        if g0 == tg(p2, mk()):
            return "textgrid equality blind to tier order"
        if g0 == tg(variants["label"], p2) or g0 == tg(mk(name="u"), p2):
            return "textgrid equality blind to a tier change"
        if g0 == "x" or base == 3:
            return "equal to a non-tier"
        # tiers of different type without entries, same name and span
        ei, ep = IntervalTier("e", [], 1.0, hi), PointTier("e", [], 1.0, hi)
        if ei == ep or ep == ei:
            return "empty interval tier equals empty point tier"
        if tg(ei, p2) == tg(ep, p2):
            return "textgrid equality blind to the type of an empty tier"
        return True

    return Ob("equality", F(*names), body, pre, fmode="real", timeout=timeout, funcs=FUNCS[7:8], bounds="2-interval tiers on [1,512]; single-field perturbations with |d| >= 2^-10")


# ------------------------------------------------------------------------- validate
def ob_validate_tier(timeout):
    names = ["lo", "hi", "s0", "e0", "s1", "e1"]

    def pre(lo, hi, s0, e0, s1, e1):
        return within(0.0, 1024.0, lo, hi, s0, e0, s1, e1)

    def body(lo, hi, s0, e0, s1, e1):
        t = IntervalTier("t", [Interval(0.0, 1.0, "x"), Interval(1.0, 2.0, "y")], 0.0, 2.0)
        # corrupt it directly (arbitrary entries and span)
        t._entries = [Interval(s0, e0, "x"), Interval(s1, e1, "y")]
        t.minTimestamp, t.maxTimestamp = lo, hi
        bad = (s0 >= e0) or (s1 >= e1) or (e0 > s1) or s0 < lo or s1 < lo or e0 > hi or e1 > hi
        if t.validate("silence") != (not bad):
            return "IntervalTier.validate"
        try:
            t.validate("error")
            raised = False
        except errors.TextgridException:
            raised = True
        if raised != bad:
            return "validate('error') raises iff invalid"
        p = PointTier("p", [Point(0.5, "x")], 0.0, 2.0)
        p._entries = [Point(s0, "x"), Point(s1, "y")]
        p.minTimestamp, p.maxTimestamp = lo, hi
        badp = (s0 > s1) or s0 < lo or s1 < lo or s0 > hi or s1 > hi
        if p.validate("silence") != (not badp):
            return "PointTier.validate"
        return True

    return Ob("validate-tier", F(*names), body, pre, fmode="ieee", timeout=timeout, funcs=FUNCS[8:9], bounds="2 entries with arbitrary (possibly corrupt) times and span in [0,1024], all binary64")


def ob_validate_tg(timeout):
    names = ["lo", "hi", "tlo", "thi", "plo", "phi"]

    def pre(lo, hi, tlo, thi, plo, phi):
        return within(0.0, 1024.0, lo, hi, tlo, thi, plo, phi) & (tlo <= thi) & (plo <= phi) & (lo <= hi)

    def body(lo, hi, tlo, thi, plo, phi):
        tg = Textgrid(lo, hi)
        tg.addTier(IntervalTier("i", [], tlo, thi), reportingMode="silence")
        tg.addTier(PointTier("p", [], plo, phi), reportingMode="silence")
        tg.minTimestamp, tg.maxTimestamp = lo, hi
        ok = (tlo == lo and plo == lo and thi == hi and phi == hi)
        if tg.validate("silence") != ok:
            return "Textgrid.validate false exactly on a span mismatch"
        return True

    return Ob("validate-textgrid", F(*names), body, pre, fmode="ieee", timeout=timeout, funcs=FUNCS[8:9], bounds="2 empty tiers with arbitrary spans vs the textgrid span")


def obligations(tier):
    obs = []
    if tier == "quick":
        obs.append(ob_find(2, 300))
        for p in REGEXES[:3]:
            obs.append(ob_find_re(p, 2, 200))
        obs.append(ob_nonentries(2, 120))
        obs.append(ob_timestamps(2, 120))
        obs.append(ob_timestamps_after_edit(300))
        obs.append(ob_values_in_intervals(2, 2, 200))
        obs.append(ob_values_at_points(2, 3, False, 200))
        obs.append(ob_values_at_points(2, 3, True, 200))
        obs.append(ob_values_at_points(2, 3, False, 200, shuffled=True))
        obs.append(ob_values_at_points(2, 3, True, 200, shuffled=True))
        for v in ("plain", "boundary", "time", "percent"):
            obs.append(ob_overlap(v, 120))
        for bk in ("both", "none"):
            obs.append(ob_invert(2, bk, 120))
        obs.append(ob_invert(0, "both", 30))
        obs.append(ob_invert_malformed(30))
        obs.append(ob_eq(300))
        obs.append(ob_validate_tier(300))
        obs.append(ob_validate_tg(120))
    else:
        obs.append(ob_find(2, 900))
        obs.append(ob_find(3, 3000))
        for p in REGEXES:
            obs.append(ob_find_re(p, 3, 1200))
        for k in (1, 2, 3):
            obs.append(ob_nonentries(k, 900))
            obs.append(ob_timestamps(k, 900))
        for k, n in ((1, 3), (2, 2), (2, 3), (3, 2)):
            obs.append(ob_values_in_intervals(k, n, 1800))
        for k, n in ((1, 2), (2, 3), (3, 3), (2, 4)):
            for fz in (False, True):
                obs.append(ob_values_at_points(k, n, fz, 1200))
                if n > 1:
                    obs.append(ob_values_at_points(k, n, fz, 1200, shuffled=True))
        for v in ("plain", "boundary", "time", "percent"):
            obs.append(ob_overlap(v, 600))
        for k in (0, 1, 2, 3):
            for bk in ("both", "min", "max", "none"):
                if k == 0 and bk != "both":
                    continue
                obs.append(ob_invert(k, bk, 900))
        obs.append(ob_invert_malformed(60))
        obs.append(ob_eq(1200))
        obs.append(ob_timestamps_after_edit(1800))
        obs.append(ob_validate_tier(1200))
        obs.append(ob_validate_tg(600))
    return obs
