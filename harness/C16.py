"""C16 - in-memory audio edits are sample-exact and sample-aligned."""
import struct as _struct

from engine.hlib import *  # noqa
from oracle import audio_ref as AR

from praatio import audio

FUNCS = [
    "praatio.audio.Wav._getIndexAtTime",
    "praatio.audio.Wav.getFrames/getSamples/getSubwav",
    "praatio.audio.Wav.deleteSegment/insert/replaceSegment/concatenate/duration",
    "praatio.audio.convertToBytes/convertFromBytes",
]
ASSUMPTIONS = [
    "the byte string of the Wav is concrete (distinct sample values); times are symbolic exact reals in [0, duration]",
    "pack/unpack identity: the C-level struct module is replaced by an arithmetic model of little-endian two's-complement packing (oracle/audio_ref.FakeStruct); sample values are symbolic over the full range of the width",
    "Wav.save / Wav.open / QueryWav on real files (wave module + file system) are outside the solver's reach: one concrete cross-check (save-open-files-concrete), labelled as such; QueryWav's arithmetic is decided over an in-memory reader (query-*)",
]
SAMPLES = [10, -20, 30, -40, 50, -60]
CODE = {1: "b", 2: "h", 4: "i"}


def _wav(width, rate, samples=SAMPLES):
    frames = _struct.pack("<" + CODE[width] * len(samples), *samples)
    return audio.Wav(frames, [1, width, rate, len(samples), "NONE", "not compressed"])


def _samples(w):
    return list(_struct.unpack("<" + CODE[w.sampleWidth] * (len(w.frames) // w.sampleWidth), w.frames))


def ob_get(width, rate, timeout):
    dur = len(SAMPLES) / rate

    def body(a, b):
        w = _wav(width, rate)
        m = AR.ListWav(SAMPLES, rate)
        want = m.get(a, b)
        if list(w.getSamples(a, b)) != want:
            return "getSamples"
        if w.getFrames(a, b) != _struct.pack("<" + CODE[width] * len(want), *want):
            return "getFrames"
        sub = w.getSubwav(a, b)
        if _samples(sub) != want or sub.sampleWidth != width or sub.frameRate != rate:
            return "getSubwav"
        if _samples(w) != SAMPLES:
            return "query changed the audio"
        if w.duration != dur:
            return "duration"
        return True

    return Ob("get-w%d-r%d" % (width, rate), F("a", "b"), body, lambda a, b: within(0.0, dur, a, b), fmode="real", timeout=timeout, funcs=FUNCS[:2], bounds="6 samples, width %d, rate %d, two arbitrary real times in [0,duration]" % (width, rate),
              canaries=[{"target": "praatio.audio:Wav._getIndexAtTime", "find": "round(startTime * self.frameRate) * self.sampleWidth", "replace": "round(startTime * self.frameRate * self.sampleWidth)"}] if width == 2 else [])


NEW = [7, -7, 9]


def ob_edit(op, width, rate, timeout):
    dur = len(SAMPLES) / rate

    def body(a, b):
        w = _wav(width, rate)
        m = AR.ListWav(SAMPLES, rate)
        ins = _struct.pack("<" + CODE[width] * len(NEW), *NEW)
        if op == "delete":
            w.deleteSegment(a, b)
            m.delete(a, b)
        elif op == "insert":
            w.insert(a, ins)
            m.insert(a, NEW)
        elif op == "replace":
            w.replaceSegment(a, b, ins)
            m.delete(a, b)
            m.insert(a, NEW)
        elif op == "concatenate":
            w.concatenate(ins)
            m.s = m.s + NEW
        if _samples(w) != m.s:
            return op + ": samples differ from the list model"
        if w.duration != len(m.s) / rate:
            return "duration != sample count / rate"
        return True

    return Ob("edit-%s-w%d-r%d" % (op, width, rate), F("a", "b"), body, lambda a, b: within(0.0, dur, a, b), fmode="real", timeout=timeout, funcs=FUNCS[:1] + FUNCS[2:3], bounds="6 samples, width %d, rate %d, arbitrary real times" % (width, rate))


def ob_edit2(op1, op2, width, rate, timeout):
    """two consecutive edits; the second is addressed in the time base AFTER the first"""
    dur = len(SAMPLES) / rate

    def apply(w, m, op, a, b):
        ins = _struct.pack("<" + CODE[width] * len(NEW), *NEW)
        if op == "delete":
            w.deleteSegment(a, b)
            m.delete(a, b)
        elif op == "insert":
            w.insert(a, ins)
            m.insert(a, NEW)
        elif op == "concatenate":
            w.concatenate(ins)
            m.s = m.s + NEW

    def body(a, b, c, d):
        w = _wav(width, rate)
        m = AR.ListWav(SAMPLES, rate)
        apply(w, m, op1, a, b)
        apply(w, m, op2, c, d)
        if _samples(w) != m.s:
            return "%s;%s: samples differ from the list model" % (op1, op2)
        if list(w.getSamples(c, d)) != m.get(c, d):
            return "read after edits"
        return True

    return Ob("edit2-%s-%s-w%d" % (op1, op2, width), F("a", "b", "c", "d"), body, lambda a, b, c, d: within(0.0, dur, a, b) & within(0.0, dur + 0.5, c, d), fmode="real", timeout=timeout, funcs=FUNCS[:3], bounds="6 samples, width %d, rate %d; second edit may address times beyond the original duration" % (width, rate))


def ob_insert_delete(width, rate, nnew, timeout):
    dur = len(SAMPLES) / rate

    def pre(a):
        x = a * rate
        ok = within(0.0, dur, a)
        # exact half-sample times excluded: Python's round() is half-to-even, so a tie
        # resolves differently before and after shifting by an odd number of samples
        for k in range(len(SAMPLES) + 1):
            ok = ok & (x != k + 0.5)
        return ok

    def body(a):
        w = _wav(width, rate)
        new = NEW[:nnew]
        w.insert(a, _struct.pack("<" + CODE[width] * nnew, *new))
        w.deleteSegment(a, a + nnew / rate)
        return True if _samples(w) == SAMPLES else "insert then delete of the same stretch does not restore the original"

    return Ob("insert-delete-identity-w%d-n%d" % (width, nnew), F("a"), body, pre, fmode="real", timeout=timeout, funcs=FUNCS[:1] + FUNCS[2:3], bounds="insert %d samples at an arbitrary real time (not an exact half-sample time), delete the same stretch" % nnew)


def ob_insert_delete_ties(width, rate, nnew, timeout):
    """region of the known finding KF-C16-half-sample-tie: exact half-sample times"""
    dur = len(SAMPLES) / rate

    def pre(a):
        x = a * rate
        ok = False
        for k in range(len(SAMPLES)):
            ok = ok | (x == k + 0.5)
        return within(0.0, dur, a) & ok

    def body(a):
        w = _wav(width, rate)
        new = NEW[:nnew]
        w.insert(a, _struct.pack("<" + CODE[width] * nnew, *new))
        w.deleteSegment(a, a + nnew / rate)
        return True if _samples(w) == SAMPLES else "insert then delete of the same stretch does not restore the original"

    return Ob("insert-delete-identity-halfsample-w%d-n%d" % (width, nnew), F("a"), body, pre, fmode="real", timeout=timeout, funcs=FUNCS[:1] + FUNCS[2:3], known="KF-C16-half-sample-tie" if nnew % 2 == 1 else None,
              bounds="insert %d samples at an exact half-sample time, delete the same stretch" % nnew)


def _setup_wave():
    """environment stub: praatio.audio.wave.open returns an in-memory reader"""
    from harness.C17 import FakeWave

    old = audio.wave

    class _W:
        Wave_read = object

        @staticmethod
        def open(fn, mode="r"):
            width, rate = fn
            return FakeWave(SAMPLES, width, rate)

    audio.wave = _W

    def undo():
        audio.wave = old

    return undo


def ob_query(width, rate, timeout):
    dur = len(SAMPLES) / rate

    def body(a, b):
        q = audio.QueryWav((width, rate))
        m = AR.ListWav(SAMPLES, rate)
        i = m.idx(a)
        cnt = AR.nearest(rate * (b - a), len(SAMPLES) + 2) if b >= a else 0
        want = SAMPLES[i:i + cnt] if cnt > 0 else []
        if list(q.getSamples(a, b)) != want:
            return "QueryWav.getSamples"
        if q.duration != dur:
            return "QueryWav.duration"
        if list(audio.convertFromBytes(q.getFrames(), width)) != SAMPLES:
            return "QueryWav.getFrames() default is the whole file"
        return True

    return Ob("query-w%d-r%d" % (width, rate), F("a", "b"), body, lambda a, b: within(0.0, dur, a, b) & (a <= b), fmode="real", timeout=timeout, setup=_setup_wave, funcs=["praatio.audio.QueryWav.getFrames/getSamples/duration", "praatio.audio.readFramesAtTime"], bounds="QueryWav over an in-memory reader (6 samples, width %d, rate %d), arbitrary real times a <= b incl. (0,0)" % (width, rate))


def ob_read_edit_read(op, width, rate, timeout):
    """a read before the edit must not influence the read after it (no stale cache)"""
    dur = len(SAMPLES) / rate

    def body(a):
        w = _wav(width, rate)
        m = AR.ListWav(SAMPLES, rate)
        w.getSamples(0.0, dur)
        w.getFrames(0.0, dur)
        ins = _struct.pack("<" + CODE[width] * len(NEW), *NEW)
        if op == "insert":
            w.insert(a, ins)
            m.insert(a, NEW)
        elif op == "delete":
            w.deleteSegment(a, a + 0.25)
            m.delete(a, a + 0.25)
        else:
            w.concatenate(ins)
            m.s = m.s + NEW
        if list(w.getSamples(0.0, 4.0)) != m.s:
            return "read after %s returns stale samples" % op
        if list(w.getSamples(0.125, 0.5)) != m.get(0.125, 0.5):
            return "partial read after %s" % op
        if w.duration != len(m.s) / rate:
            return "duration"
        return True

    return Ob("read-%s-read-w%d" % (op, width), F("a"), body, lambda a: within(0.0, dur, a), fmode="real", timeout=timeout, funcs=FUNCS[:3], bounds="read everything, %s at an arbitrary real time, read everything again (6 samples, width %d, rate %d)" % (op, width, rate))


def ob_save_open_concrete():
    """concrete cross-check through real files: saving then opening a Wav (or querying it
    through QueryWav) yields the same samples and parameters"""
    import os
    import shutil
    import tempfile

    WIDTHS, RATES, COUNTS = [1, 2, 4], [8, 8000, 44100], [0, 1, 2, 3, 6, 7]

    def check(w, r, c):
        width, rate, n = WIDTHS[w], RATES[r], COUNTS[c]
        top = 2 ** (8 * width - 1) - 1
        if width == 1:  # 8-bit wav data is unsigned on disk; praatio reads it with the signed code 'b' both ways
            xs = [((i * 37) % 256) - 128 for i in range(n)]
        else:
            xs = [(-top - 1, top, 0, -1, 1, 12345 % top, -(54321 % top))[i % 7] for i in range(n)]
        wv = _wav(width, rate, xs)
        d = tempfile.mkdtemp(prefix="verif_c16_")
        try:
            fn = os.path.join(d, "a.wav")
            wv.save(fn)
            back = audio.Wav.open(fn)
            if _samples(back) != xs:
                return "samples after save/open: %r" % (_samples(back),)
            if (back.nchannels, back.sampleWidth, back.frameRate, back.nframes) != (1, width, rate, n):
                return "parameters after save/open: %r" % ((back.nchannels, back.sampleWidth, back.frameRate, back.nframes),)
            q = audio.QueryWav(fn)
            if (q.nchannels, q.sampleWidth, q.frameRate, q.nframes) != (1, width, rate, n):
                return "QueryWav parameters"
            if n and list(q.getSamples(0.0, n / rate)) != xs:
                return "QueryWav samples"
            if q.duration != n / rate or back.duration != n / rate:
                return "duration"
            return True
        finally:
            shutil.rmtree(d, ignore_errors=True)

    def run():
        k = 0
        for w in range(3):
            for r in range(3):
                for c in range(len(COUNTS)):
                    k += 1
                    try:
                        res = check(w, r, c)
                    except Exception as ex:  # noqa
                        res = "exception " + type(ex).__name__ + ": " + str(ex)[:100]
                    if res is not True:
                        return {"verdict": "REFUTED", "queries": k, "cex_args": {"w": w, "r": r, "c": c}, "message": str(res), "refute_kind": "CONCRETE"}
        return {"verdict": "CONFIRMED", "queries": k, "detail": "concrete cross-check"}

    return Ob("save-open-files-concrete", I("w", "r", "c"), check, kind="smt", smt=run, timeout=120, funcs=["praatio.audio.Wav.save / Wav.open / QueryWav (file system)"], bounds="concrete cross-check: widths 1/2/4 x rates 8/8000/44100 x 0,1,2,3,6,7 samples (odd and even byte counts, extremes of the value range)")


def _setup_struct():
    old = audio.struct
    audio.struct = AR.FakeStruct

    def undo():
        audio.struct = old

    return undo


def ob_pack(width, n, timeout):
    lim = 1 << (8 * width - 1)
    names = ["v%d" % i for i in range(n)]

    def pre(*vs):
        ok = True
        for v in vs:
            ok = ok & (-lim <= v) & (v < lim)
        return ok

    def body(*vs):
        b = audio.convertToBytes(tuple(vs), width)
        if len(b) != width * n:
            return "byte count"
        back = audio.convertFromBytes(b, width)
        if tuple(back) != tuple(vs):
            return "samples -> bytes -> samples is not the identity"
        b2 = audio.convertToBytes(tuple(back), width)
        return True if tuple(b2) == tuple(b) else "bytes -> samples -> bytes is not the identity"

    return Ob("pack-unpack-w%d-n%d" % (width, n), I(*names), body, pre, timeout=timeout, setup=_setup_struct, funcs=FUNCS[3:4], bounds="%d symbolic samples over the full signed %d-bit range" % (n, 8 * width))


def obligations(tier):
    obs = [ob_save_open_concrete()]
    if tier == "quick":
        for width, rate in ((1, 8), (2, 8), (2, 10)):
            obs.append(ob_get(width, rate, 120))
        for op in ("delete", "insert", "replace", "concatenate"):
            obs.append(ob_edit(op, 2, 8, 120))
        obs.append(ob_edit2("concatenate", "insert", 1, 8, 300))
        obs.append(ob_query(2, 8, 200))
        obs.append(ob_read_edit_read("insert", 2, 8, 300))
        obs.append(ob_read_edit_read("delete", 1, 8, 300))
        obs.append(ob_read_edit_read("concatenate", 2, 8, 300))
        obs.append(ob_insert_delete(2, 8, 1, 120))
        obs.append(ob_insert_delete(2, 8, 2, 120))
        obs.append(ob_insert_delete_ties(2, 8, 1, 120))
        obs.append(ob_insert_delete_ties(2, 8, 2, 120))
        for width in (1, 2, 4):
            obs.append(ob_pack(width, 2, 200))
    else:
        for width in (1, 2, 4):
            for rate in (8, 10, 16):
                obs.append(ob_get(width, rate, 900))
                for op in ("delete", "insert", "replace", "concatenate"):
                    obs.append(ob_edit(op, width, rate, 900))
            for o1 in ("insert", "delete", "concatenate"):
                for o2 in ("insert", "delete", "concatenate"):
                    obs.append(ob_edit2(o1, o2, width, 8, 1800))
            obs.append(ob_query(width, 8, 900))
            obs.append(ob_query(width, 10, 900))
            for op in ("insert", "delete", "concatenate"):
                obs.append(ob_read_edit_read(op, width, 8, 1800))
            for nn in (1, 2, 3):
                obs.append(ob_insert_delete(width, 8, nn, 600))
                obs.append(ob_insert_delete_ties(width, 8, nn, 600))
            for n in (1, 2, 3):
                obs.append(ob_pack(width, n, 1200))
    from harness import fp_kernels

    obs += fp_kernels.c16_obligations(tier)
    return obs
