"""C17 - interval-driven audio extraction keeps and drops exactly the marked samples."""
import struct as _struct

from engine.hlib import *  # noqa
from oracle import audio_ref as AR

from praatio import audio
from praatio.utilities import errors

FUNCS = [
    "praatio.audio._computeKeepDeleteIntervals",
    "praatio.utilities.utils.invertIntervalList",
    "praatio.audio.readFramesAtTimes",
    "praatio.audio.readFramesAtTime",
    "praatio.audio.AudioGenerator.generateSilence/generateSineWave",
]
ASSUMPTIONS = [
    "environment stub: the wave.Wave_read argument is an in-memory reader (getparams/setpos/tell/rewind/readframes over 8 concrete samples)",
    "generateSineWave: math.sin is stubbed (values outside the claim, only the sample count is decided)",
    "extractSubwav/splitAudioOnTier write files through the wave module: outside the claim (their TextGrid-cropping half is C06/C12)",
]
SAMPLES = [11, -12, 13, -14, 15, -16, 17, -18]
CODE = {1: "b", 2: "h", 4: "i"}


class FakeWave:
    def __init__(self, samples, width, rate):
        self.width, self.rate, self.n = width, rate, len(samples)
        self.data = _struct.pack("<" + CODE[width] * len(samples), *samples)
        self.pos = 0

    def getparams(self):
        return (1, self.width, self.rate, self.n, "NONE", "not compressed")

    def getnframes(self):
        return self.n

    def getframerate(self):
        return self.rate

    def getsampwidth(self):
        return self.width

    def rewind(self):
        self.pos = 0

    def tell(self):
        return self.pos

    def setpos(self, p):
        if p < 0 or p > self.n:
            raise ValueError("position not in range")
        self.pos = p

    def readframes(self, k):
        if k <= 0:
            return b""
        end = self.pos + k
        if end > self.n:
            end = self.n
        out = self.data[self.pos * self.width: end * self.width]
        self.pos = end
        return out


def _unpack(b, width):
    return list(_struct.unpack("<" + CODE[width] * (len(b) // width), b))


def ob_partition(k, which, timeout):
    names = ["dur"] + [n for i in range(k) for n in ("s%d" % i, "e%d" % i)]

    def pre(dur, *ts):
        return ivs_wf_pre(0.0, dur, *ts) & finite(dur) & (dur > 0)

    def body(dur, *ts):
        ivs = [(ts[2 * i], ts[2 * i + 1]) for i in range(k)]
        kw = {"keepIntervals": list(reversed(ivs))} if which == "keep" else {"deleteIntervals": list(reversed(ivs))}
        got = audio._computeKeepDeleteIntervals(0.0, dur, **kw)
        mine, other = ("keep", "delete") if which == "keep" else ("delete", "keep")
        pos = 0.0
        for (s, e, lab) in got:
            if s != pos or not s < e:
                return "not a sorted gap-free partition of [0,duration]"
            pos = e
        if pos != dur:
            return "partition does not end at the duration"
        if [(s, e) for (s, e, lab) in got if lab == mine] != ivs:
            return "given intervals not labelled " + mine
        if any(lab not in (mine, other) for (_, _, lab) in got):
            return "labels"
        return True

    return Ob("partition-%s-k%d" % (which, k), F(*names), body, pre, fmode="ieee", timeout=timeout, funcs=FUNCS[:2], bounds="%d disjoint %s-intervals (touching, at the edges allowed) in [0,duration], any binary64" % (k, which),
              canaries=[{"target": "praatio.utilities.utils:invertIntervalList", "find": "if interval[0] != interval[1]]", "replace": "if interval[0] < interval[1] or True]"}] if (k == 2 and which == "keep") else [])


def ob_both_lists(timeout):
    def body(s0, e0):
        try:
            audio._computeKeepDeleteIntervals(0.0, 1.0, [(s0, e0)], [(s0, e0)])
        except errors.ArgumentError:
            return True
        return "both keep and delete intervals accepted"

    return Ob("partition-both-lists", F("s0", "e0"), body, lambda s0, e0: (0.0 <= s0) & (s0 < e0) & (e0 <= 1.0), fmode="ieee", timeout=timeout, funcs=FUNCS[:1], bounds="one interval given as both keep and delete")


def ob_read(k, which, replace, width, timeout):
    rate = 8
    n = len(SAMPLES)
    dur = n / rate
    names = [nm for i in range(k) for nm in ("s%d" % i, "e%d" % i)]

    def pre(*ts):
        return ivs_wf_pre(0.0, 2.0, *ts)

    def body(*ts):
        ivs = [(ts[2 * i], ts[2 * i + 1]) for i in range(k)]
        fw = FakeWave(SAMPLES, width, rate)
        fw.readframes(3)  # the handle has been read from before: the result must not depend on its position
        gen = audio.AudioGenerator(width, rate)
        kw = {"keepIntervals": ivs} if which == "keep" else {"deleteIntervals": ivs}
        if replace:
            kw["replaceFunc"] = gen.generateSilence
        beyond = k > 0 and ivs[-1][1] > dur
        try:
            got = audio.readFramesAtTimes(fw, **kw)
        except errors.ArgumentError:
            return True if beyond else "ArgumentError although every interval lies inside the recording"
        if beyond:
            return "interval beyond the recording accepted"
        # marked stretches in time order
        marks = []
        pos = 0.0
        for (s, e) in ivs:
            if pos < s:
                marks.append((pos, s, "other"))
            marks.append((s, e, "given"))
            pos = e
        if pos < dur:
            marks.append((pos, dur, "other"))
        want = []
        if k == 0:  # no list at all: everything is kept
            marks = [(0.0, dur, "given" if which == "keep" else "other")]
        for (s, e, m) in marks:
            kept = (m == "given") == (which == "keep")
            cnt = AR.nearest(rate * (e - s), n + 2)
            if kept:
                i = AR.nearest(rate * s, n + 2)
                want += SAMPLES[i:i + cnt]
            elif replace:
                want += [0] * cnt
        if _unpack(got, width) != want:
            return "returned samples differ from kept stretches (+ generated replacement)"
        if audio.readFramesAtTimes(fw, **kw) != got:
            return "a second read through the same handle returns something else"
        if k == 0 and audio.readFramesAtTimes(fw) != got:
            return "no lists at all (defaults) on a used handle: not the whole recording"
        return True

    return Ob("read-%s-k%d-%s-w%d" % (which, k, "silence" if replace else "drop", width), F(*names), body, pre, fmode="real", timeout=timeout, funcs=FUNCS[2:4] + FUNCS[:2], bounds="8 samples at 8 Hz, width %d, %d %s-intervals with arbitrary real boundaries in [0,2] (beyond the 1 s recording => ArgumentError)" % (width, k, which))


def ob_read_ongrid(which, width, timeout):
    """boundaries on sample positions + replacement: original length, kept samples at their
    original positions"""
    rate, n = 8, len(SAMPLES)

    def pre(i0, j0, i1, j1):
        return 0 <= i0 < j0 <= i1 < j1 <= n

    def body(i0, j0, i1, j1):
        ivs = [(i0 / rate, j0 / rate), (i1 / rate, j1 / rate)]
        fw = FakeWave(SAMPLES, width, rate)
        gen = audio.AudioGenerator(width, rate)
        kw = {"keepIntervals": ivs} if which == "keep" else {"deleteIntervals": ivs}
        got = _unpack(audio.readFramesAtTimes(fw, replaceFunc=gen.generateSilence, **kw), width)
        if len(got) != n:
            return "length changed although dropped stretches are replaced"
        for p in range(n):
            inside = (i0 <= p < j0) or (i1 <= p < j1)
            keep = inside if which == "keep" else not inside
            if got[p] != (SAMPLES[p] if keep else 0):
                return "sample %d" % p
        return True

    return Ob("read-ongrid-%s-w%d" % (which, width), I("i0", "j0", "i1", "j1"), body, pre, fmode="real", timeout=timeout, funcs=FUNCS[2:4], bounds="2 intervals on sample positions (all index choices), silence replacement")


class _FakeMath:
    pi = 3.141592653589793

    @staticmethod
    def sin(x):
        return 0.0


def _setup_sin():
    old = audio.math
    audio.math = _FakeMath

    def undo():
        audio.math = old

    return undo


def ob_generators(width, rate, timeout):
    def body(d):
        gen = audio.AudioGenerator(width, rate)
        cnt = AR.nearest(rate * d, 20)
        if len(gen.generateSilence(d)) != width * cnt:
            return "silence: sample count != round(rate x duration)"
        if _unpack(gen.generateSilence(d), width) != [0] * cnt:
            return "silence is not zero"
        if len(gen.generateSineWave(d, 2, 5)) != width * cnt:
            return "sine: sample count != round(rate x duration)"
        return True

    return Ob("generators-w%d-r%d" % (width, rate), F("d"), body, lambda d: within(0.0, 1.0, d), fmode="real", timeout=timeout, setup=_setup_sin, funcs=FUNCS[4:5], bounds="duration in [0,1] s at %d Hz, width %d" % (rate, width))


def ob_split_files_concrete():
    """concrete cross-check through real files (wave module + file system are outside the
    solver's reach): extractSubwav and splitAudioOnTier write, per entry, the same samples with
    the source's parameters; on sample positions these are exactly the source samples"""
    import os
    import shutil
    import tempfile
    import wave

    from praatio import praatio_scripts, textgrid as tgapi
    from praatio.data_classes.interval_tier import IntervalTier
    from praatio.data_classes.textgrid import Textgrid
    from praatio.utilities.constants import Interval

    CASES = [[(0.5, 1.0, "a"), (1.5, 2.25, "b")], [(0.424, 0.678, "a"), (1.126, 1.374, "b")], [(0.005, 0.015, "a"), (2.996, 3.0, "b")], [(0.0, 3.0, "whole")]]

    def check(c):
        rate, n = 100, 300
        src = [((i * 37) % 200) - 100 for i in range(n)]
        d = tempfile.mkdtemp(prefix="verif_c17_")
        try:
            wfn = os.path.join(d, "src.wav")
            w = wave.open(wfn, "w")
            w.setparams((1, 2, rate, n, "NONE", "not compressed"))
            w.writeframes(_struct.pack("<" + "h" * n, *src))
            w.close()
            tg = Textgrid(0, n / rate)
            tg.addTier(IntervalTier("words", [Interval(*e) for e in CASES[c]], 0, n / rate))
            tg.addTier(IntervalTier("other", [Interval(0.0, 0.4, "o")], 0, n / rate))
            tfn = os.path.join(d, "src.TextGrid")
            tg.save(tfn, "short_textgrid", True)
            out = os.path.join(d, "out")
            res = praatio_scripts.splitAudioOnTier(wfn, tfn, "words", out, True)
            if len(res) != len(CASES[c]):
                return "one file per entry"
            for (s, e, l), (rs, re_, fn) in zip(CASES[c], res):
                f = wave.open(os.path.join(out, fn), "r")
                got = list(_struct.unpack("<" + "h" * f.getnframes(), f.readframes(f.getnframes())))
                if (f.getnchannels(), f.getsampwidth(), f.getframerate()) != (1, 2, rate):
                    return "parameters of the written file"
                f.close()
                ref = os.path.join(d, "ref.wav")
                audio.extractSubwav(wfn, ref, s, e)
                g = wave.open(ref, "r")
                want = list(_struct.unpack("<" + "h" * g.getnframes(), g.readframes(g.getnframes())))
                g.close()
                if got != want:
                    return "splitAudioOnTier and extractSubwav disagree for [%r, %r]: %d vs %d samples" % (s, e, len(got), len(want))
                i, j = round(s * rate), round(e * rate)
                if abs(s * rate - i) < 1e-9 and abs(e * rate - j) < 1e-9 and got != src[i:j]:
                    return "file does not hold the source samples of the interval"
                sub = tgapi.openTextgrid(os.path.join(out, fn.replace(".wav", ".TextGrid")), False)
                if abs(sub.maxTimestamp - (e - s)) > 1e-9 or sub.minTimestamp != 0:
                    return "cropped textgrid span"
                if [x[2] for x in sub.getTier("words").entries] != [l]:
                    return "cropped textgrid label"
            return True
        finally:
            shutil.rmtree(d, ignore_errors=True)

    def run():
        for c in range(len(CASES)):
            try:
                r = check(c)
            except Exception as ex:  # noqa
                r = "exception " + type(ex).__name__ + ": " + str(ex)[:100]
            if r is not True:
                return {"verdict": "REFUTED", "queries": c + 1, "cex_args": {"c": c}, "message": str(r), "refute_kind": "CONCRETE"}
        return {"verdict": "CONFIRMED", "queries": len(CASES), "detail": "concrete cross-check through real wav/TextGrid files"}

    return Ob("split-files-concrete", I("c"), check, kind="smt", smt=run, timeout=120, funcs=["praatio.praatio_scripts.splitAudioOnTier", "praatio.audio.extractSubwav"], bounds="concrete cross-check: 300-sample 100 Hz recording, 4 interval sets on and off sample positions")


def obligations(tier):
    obs = []
    if tier == "quick":
        for which in ("keep", "delete"):
            obs.append(ob_partition(2, which, 120))
            obs.append(ob_read(1, which, False, 2, 300))
            obs.append(ob_read_ongrid(which, 2, 300))
        obs.append(ob_read(1, "delete", True, 1, 300))
        obs.append(ob_read(1, "keep", True, 4, 300))
        obs.append(ob_read(0, "keep", False, 2, 30))
        obs.append(ob_both_lists(30))
        obs.append(ob_generators(2, 8, 120))
        obs.append(ob_split_files_concrete())
        # splitAudioOnTier crops the textgrid with Textgrid.crop: the cropped spans and entries are C06's subject
        from harness import C06

        obs.append(C06.ob_interval_crop(2, "truncated", True, "real", 120))
        obs.append(C06.ob_interval_crop(2, "strict", True, "real", 120))
    else:
        from harness import C06

        obs.append(C06.ob_interval_crop(2, "truncated", True, "real", 600))
        obs.append(C06.ob_interval_crop(2, "strict", True, "real", 600))
        obs.append(ob_split_files_concrete())
        for which in ("keep", "delete"):
            for k in (1, 2, 3):
                obs.append(ob_partition(k, which, 900))
            for k in (0, 1, 2):
                for rp in (False, True):
                    for width in ((1, 2, 4) if k < 2 else (2,)):
                        obs.append(ob_read(k, which, rp, width, 1800 if k < 2 else 3400))
            for width in (1, 2, 4):
                obs.append(ob_read_ongrid(which, width, 1800))
        obs.append(ob_both_lists(30))
        for width in (1, 2, 4):
            for rate in (8, 10):
                obs.append(ob_generators(width, rate, 600))
    return obs
