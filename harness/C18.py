"""C18 - zero-crossing search finds real crossings; splicing keeps audio and text in step."""
import struct as _struct

from engine.hlib import *  # noqa

from praatio import audio, praatio_scripts
from praatio.data_classes.interval_tier import IntervalTier
from praatio.data_classes.point_tier import PointTier
from praatio.data_classes.textgrid import Textgrid
from praatio.utilities.constants import Interval, Point
from praatio.utilities import errors

FUNCS = [
    "praatio.audio.AbstractWav.findNearestZeroCrossing/_iterZeroCrossings",
    "praatio.audio._findNextZeroCrossing/_getNearestZero/_getZeroThresholdCrossing",
    "praatio.utilities.utils.find/sign/getInterval/chooseClosestTime",
    "praatio.praatio_scripts.tgBoundariesToZeroCrossings",
    "praatio.praatio_scripts.audioSplice/_shiftTimes",
]
ASSUMPTIONS = [
    "zero-crossing search: the byte layer is replaced by a list-of-samples subclass of AbstractWav (getSamples/duration only; byte layer = C16); sample values symbolic ints in [-2,2], frame rate 8 (dyadic: k/8 exact)",
    "termination is decided by a call bound on getSamples: the search widens by timeStep per round, so it needs at most duration/timeStep + 2 rounds of 2 reads; each round reads samples at most twice and consults the duration a handful of times; more than 200 such accesses in one search is reported as non-termination",
    "tgBoundariesToZeroCrossings / audioSplice: concrete sample patterns, symbolic on-grid times",
]
RATE = 8
RATE_TG = 1024  # the textgrid-level functions use the default timeStep (0.002 s): it must span at least two samples
CALL_BOUND = 200


class NonTermination(Exception):
    pass


class SymWav(audio.AbstractWav):
    def __init__(self, samples, rate=RATE):
        self.samples = list(samples)
        self.calls = 0
        super().__init__([1, 2, rate, len(self.samples), "NONE", "not compressed"])

    @property
    def duration(self):
        # every round of the search loop consults the duration at least once
        self.calls += 1
        if self.calls > CALL_BOUND:
            raise NonTermination("findNearestZeroCrossing consulted the recording more than %d times" % CALL_BOUND)
        return len(self.samples) / self.frameRate

    def getFrames(self, s, e):
        raise NotImplementedError

    def getSamples(self, s, e):
        self.calls += 1
        if self.calls > CALL_BOUND:
            raise NonTermination("findNearestZeroCrossing consulted the recording more than %d times" % CALL_BOUND)
        i, j = round(s * self.frameRate), round(e * self.frameRate)
        if i < 0:
            i = 0
        return tuple(self.samples[i:j])


def _sg(v):
    return (v > 0) - (v < 0)


def genuine(xs, i):
    if not (0 <= i < len(xs)):
        return False
    ok = xs[i] == 0
    if i > 0:
        ok = ok or _sg(xs[i]) != _sg(xs[i - 1])
    if i + 1 < len(xs):
        ok = ok or _sg(xs[i]) != _sg(xs[i + 1])
    return ok


def ob_zc(n, step_samples, timeout, RATE=RATE):
    names = ["k"] + ["x%d" % i for i in range(n)]

    def pre(k, *xs):
        return (0 <= k <= n) and all(-2 <= x <= 2 for x in xs)

    def body(k, *xs):
        xs = list(xs)
        w = SymWav(xs, RATE)
        try:
            t = w.findNearestZeroCrossing(k / RATE, step_samples / RATE)
        except errors.FindZeroCrossingError:
            return True
        except errors.ArgumentError:
            return True if step_samples < 2 else "ArgumentError for a step of at least two samples"
        if step_samples < 2:
            return "step smaller than two samples accepted"
        if not (0 <= t <= len(xs) / RATE):
            return "result outside [0, duration]"
        i = t * RATE
        if i != int(i):
            return "result not on a sample position although the target is"
        return True if genuine(xs, int(i)) else "result is not a zero or a sign change"

    return Ob("zerocrossing-n%d-step%s%s" % (n, ("%g" % step_samples).replace(".", "_"), "" if RATE == 8 else "-rate%d" % RATE), I(*names), body, pre, fmode="real", timeout=timeout, funcs=FUNCS[:3], bounds="%d symbolic samples in [-2,2], target on any sample position 0..%d, timeStep %g samples, frame rate %d" % (n, n, step_samples, RATE),
              canaries=[{"target": "praatio.audio:_findNextZeroCrossing", "find": "return startTime + zeroI / float(frameRate)", "replace": "return startTime + (zeroI + 1) / float(frameRate)"}] if (n, step_samples) == (4, 2) else [])


def ob_zc_nocrossing(n, step_samples, timeout):
    """all-positive / all-negative recordings: must raise FindZeroCrossingError (and terminate)
    for every target, also off the sample grid"""

    def pre(t, sgn):
        return within(0.0, n / RATE, t) & ((sgn == 1) | (sgn == -1))

    def body(t, sgn):
        w = SymWav([sgn * (1 + (i % 2)) for i in range(n)])
        try:
            r = w.findNearestZeroCrossing(t, step_samples / RATE)
        except errors.FindZeroCrossingError:
            return True
        return "returned %r for a recording without any crossing" % (r,)

    return Ob("zerocrossing-none-n%d-step%d" % (n, step_samples), F("t") + I("sgn"), body, pre, fmode="real", timeout=timeout, funcs=FUNCS[:3], bounds="%d samples of one sign, arbitrary real target in [0,duration], timeStep %d samples" % (n, step_samples))


PATTERNS = {
    "mixed": [3, 1, -2, -1, 4, 2, -3, 0],
    "sparsezero": [5, 5, 0, 5, 5, 5, 0, 5],
    "single": [2, 2, 2, 2, -2, -2, -2, -2],
}


def _collapses(xs, a, b):
    """the two boundaries of an interval move onto crossings that do not leave a positive length
    (then no well-formed interval exists and a TextgridStateError is the documented answer)"""
    try:
        na = SymWav(xs, RATE_TG).findNearestZeroCrossing(a / RATE_TG)
        nb = SymWav(xs, RATE_TG).findNearestZeroCrossing(b / RATE_TG)
    except errors.FindZeroCrossingError:
        return True
    return not (na < nb)


def ob_tg_zc(pat, timeout, fixed_q=None):
    xs = PATTERNS[pat]
    n = len(xs)

    def pre(a, b, p, q):
        return 0 <= a < b <= n and 0 <= p < q <= n and (fixed_q is None or q == fixed_q)

    def body(a, b, p, q):
        w = SymWav(xs, RATE_TG)
        tg = Textgrid(0.0, n / RATE_TG)
        tg.addTier(IntervalTier("i", [Interval(a / RATE_TG, b / RATE_TG, "x")], 0.0, n / RATE_TG))
        tg.addTier(PointTier("p", [Point(p / RATE_TG, "u"), Point(q / RATE_TG, "v")], 0.0, n / RATE_TG))
        try:
            r = praatio_scripts.tgBoundariesToZeroCrossings(tg, w)
        except errors.FindZeroCrossingError:
            return True
        except errors.TextgridStateError:
            return True if _collapses(xs, a, b) else "TextgridStateError although the moved interval keeps a positive length"
        if list(r.tierNames) != ["i", "p"]:
            return "tier order"
        ei, ep = r.getTier("i").entries, r.getTier("p").entries
        if len(ei) != 1 or len(ep) != 2:
            return "entry count changed"
        if ei[0][2] != "x" or sorted(e[1] for e in ep) != ["u", "v"]:
            return "labels changed"
        for t in (ei[0][0], ei[0][1], ep[0][0], ep[1][0]):
            i = t * RATE_TG
            if i != int(i) or not genuine(xs, int(i)):
                return "boundary not moved to a genuine zero crossing"
        return True

    return Ob("tg-to-zerocrossings-%s%s" % (pat, "" if fixed_q is None else "-q%d" % fixed_q), I("a", "b", "p", "q"), body, pre, fmode="real", timeout=timeout, funcs=FUNCS[3:4] + FUNCS[:1], bounds="pattern %s (8 samples at 1024 Hz, default timeStep), 1 interval + 2 points on any sample positions%s" % (pat, "" if fixed_q is None else " (second point fixed at sample %d)" % fixed_q))


def ob_tg_zc_points_same_crossing(timeout):
    """a recording with a single crossing: every point of a point tier moves onto it - the tier
    keeps its entry count and labels (several points on one time)"""
    xs = PATTERNS["single"]
    n = len(xs)

    def pre(p, q, r):
        return 0 <= p < q < r <= n

    def body(p, q, r):
        w = SymWav(xs, RATE_TG)
        tg = Textgrid(0.0, n / RATE_TG)
        tg.addTier(PointTier("p", [Point(p / RATE_TG, "u"), Point(q / RATE_TG, "v"), Point(r / RATE_TG, "w")], 0.0, n / RATE_TG))
        try:
            res = praatio_scripts.tgBoundariesToZeroCrossings(tg, w)
        except errors.FindZeroCrossingError:
            return True
        ep = res.getTier("p").entries
        if len(ep) != 3:
            return "entry count changed"
        if sorted(e[1] for e in ep) != ["u", "v", "w"]:
            return "labels changed"
        for e in ep:
            i = e[0] * RATE_TG
            if i != int(i) or not genuine(xs, int(i)):
                return "point not moved to a genuine zero crossing"
        return True

    return Ob("tg-to-zerocrossings-points-same-crossing", I("p", "q", "r"), body, pre, fmode="real", timeout=timeout, funcs=FUNCS[3:4] + FUNCS[:1], bounds="pattern single (8 samples, one sign change), 3 points on any sample positions")


def _wav(samples, rate, width=2):
    frames = _struct.pack("<" + "h" * len(samples), *samples)
    return audio.Wav(frames, [1, width, rate, len(samples), "NONE", "not compressed"])


AUD = [4, 2, -3, -1, 2, 5, -2, -4, 1, 3, -1, -2]
SPL = [6, 3, -2, -5, -1, 2, 4, -3]


def ob_zc_after_insert(timeout):
    """state carried between calls on a real Wav: a crossing query, an insert, a second query -
    the second answer is a genuine crossing of the CURRENT audio"""
    rate = 1000
    n = len(AUD)

    def pre(j, q):
        return 0 <= j <= n and 0 <= q <= n + len(SPL)

    def body(j, q):
        k = 3
        wav = _wav(AUD, rate)
        try:
            wav.findNearestZeroCrossing(k / rate)
        except errors.PraatioException:
            pass
        wav.insert(j / rate, _struct.pack("<" + "h" * len(SPL), *SPL))
        cur = list(_struct.unpack("<" + "h" * (len(wav.frames) // 2), wav.frames))
        if cur != AUD[:j] + SPL + AUD[j:]:
            return "insert"
        try:
            t = wav.findNearestZeroCrossing(q / rate)
        except errors.PraatioException:
            return True
        i = t * rate
        if i != int(i) or not genuine(cur, int(i)):
            return "second query is not a crossing of the audio as it is after the insert"
        return True

    return Ob("zerocrossing-query-insert-query", I("j", "q"), body, pre, fmode="real", timeout=timeout, funcs=FUNCS[:2] + ["praatio.audio.Wav.insert/getSamples"], bounds="real Wav (12 samples at 1 kHz): query at sample 3, insert 8 samples at any sample, query again at any sample")


def ob_tg_zc_flags(timeout):
    """adjustPointTiers / adjustIntervalTiers: tiers that are not adjusted stay, unchanged and
    in place"""
    xs = PATTERNS["mixed"]
    n = len(xs)

    def pre(a, b, p, fp, fi):
        return 0 <= a < b <= n and 0 <= p <= n and 0 <= fp <= 1 and 0 <= fi <= 1

    def body(a, b, p, fp, fi):
        w = SymWav(xs, RATE_TG)
        tg = Textgrid(0.0, n / RATE_TG)
        tg.addTier(IntervalTier("i", [Interval(a / RATE_TG, b / RATE_TG, "x")], 0.0, n / RATE_TG))
        tg.addTier(PointTier("p", [Point(p / RATE_TG, "u")], 0.0, n / RATE_TG))
        tg.addTier(IntervalTier("j", [], 0.0, n / RATE_TG))
        try:
            r = praatio_scripts.tgBoundariesToZeroCrossings(tg, w, bool(fp), bool(fi))
        except errors.FindZeroCrossingError:
            return True
        except errors.TextgridStateError:
            return True if (fi and _collapses(xs, a, b)) else "TextgridStateError although the moved interval keeps a positive length"
        if list(r.tierNames) != ["i", "p", "j"]:
            return "tier set/order"
        if not fi and tuples(r.getTier("i").entries) != [(a / RATE_TG, b / RATE_TG, "x")]:
            return "interval tier changed although adjustIntervalTiers is False"
        if not fp and tuples(r.getTier("p").entries) != [(p / RATE_TG, "u")]:
            return "point tier changed although adjustPointTiers is False"
        if [len(t.entries) for t in r.tiers] != [1, 1, 0]:
            return "entry counts"
        return True

    return Ob("tg-to-zerocrossings-flags", I("a", "b", "p", "fp", "fi"), body, pre, fmode="real", timeout=timeout, funcs=FUNCS[3:4], bounds="3 tiers, all four flag combinations, on-grid times")


def _contains(big, small):
    return any(big[i : i + len(small)] == small for i in range(len(big) - len(small) + 1))


def ob_splice(align, with_stop, timeout, fixed=None):
    rate = 1000
    n = len(AUD)

    def pre(k, j, a, b):
        return 0 <= k <= n and k <= j <= n and 0 <= a < b <= n and (not with_stop or k < j) and (fixed is None or (a, b) == fixed)

    def body(k, j, a, b):
        wav = _wav(AUD, rate)
        spl = _wav(SPL, rate)
        dur = n / rate
        tg = Textgrid(0.0, dur)
        tg.addTier(IntervalTier("words", [Interval(a / rate, b / rate, "w")], 0.0, dur))
        tg.addTier(PointTier("marks", [Point(a / rate, "m")], 0.0, dur))
        tg.addTier(IntervalTier("target", [], 0.0, dur))
        before = snap_tg(tg)
        try:
            na, ntg = praatio_scripts.audioSplice(wav, spl, tg, "target", "NEW", k / rate, (j / rate) if with_stop else None, align)
        except errors.PraatioException:
            return True
        if snap_tg(tg) != before:
            return "input textgrid mutated"
        one = 1.0 / rate
        d = na.duration - ntg.maxTimestamp
        if d > one + 1e-9 or d < -one - 1e-9:
            return "audio and textgrid durations differ by more than a sample"
        new = [e for e in ntg.getTier("target").entries if e[2] == "NEW"]
        if len(new) != 1 or len(ntg.getTier("target").entries) != 1:
            return "not exactly one new interval"
        ins_len = na.duration - dur
        if with_stop:
            ins_len = None
        if ins_len is not None:
            dd = (new[0][1] - new[0][0]) - ins_len
            if dd > one + 1e-9 or dd < -one - 1e-9:
                return "new interval does not cover the inserted audio"
        # the audio under the new interval is the spliced segment
        got = list(_struct.unpack("<" + "h" * (len(na.frames) // 2), na.frames))
        i0, i1 = round(new[0][0] * rate), round(new[0][1] * rate)
        seg = got[i0:i1]
        if not align and seg != SPL:
            return "the audio under the new interval is not the spliced segment"
        if align and (len(seg) == 0 or not _contains(SPL, seg)):
            return "the audio under the new interval is not a stretch of the spliced segment"
        ws = ntg.getTier("words").entries
        if [e[2] for e in ws] != ["w"] and not with_stop:
            return "labels of other entries changed"
        if not with_stop and b / rate < new[0][0] and b / rate < k / rate:
            if tuple(ws[0]) != (a / rate, b / rate, "w"):
                return "entry that ended before the insertion point changed"
        for t in ntg.tiers:
            if t.maxTimestamp != ntg.maxTimestamp:
                return "tier span differs from the textgrid span"
        return True

    return Ob("splice-%s-%s%s" % ("align" if align else "noalign", "replace" if with_stop else "insert", "" if fixed is None else "-iv%d-%d" % fixed), I("k", "j", "a", "b"), body, pre, fmode="real", timeout=timeout, funcs=FUNCS[4:5] + FUNCS[:1], bounds="12-sample audio, 8-sample splice at 1 kHz; insertion point / replaced region on any sample positions; one interval %s" % ("on any sample positions" if fixed is None else "at samples %d..%d" % fixed))


def obligations(tier):
    obs = []
    if tier == "quick":
        obs.append(ob_zc(4, 2, 300))
        obs.append(ob_zc(5, 3, 300))
        obs.append(ob_zc(3, 1, 60))
        obs.append(ob_zc(4, 2, 300, RATE=32))  # 1/32 s has five decimals
        obs.append(ob_zc(4, 2.5, 300))  # a step that is not a whole number of samples
        obs.append(ob_zc(5, 3.25, 300))
        obs.append(ob_zc_nocrossing(6, 2, 300))
        obs.append(ob_tg_zc("mixed", 400, fixed_q=8))
        obs.append(ob_tg_zc_points_same_crossing(300))
        obs.append(ob_tg_zc_flags(300))
        obs.append(ob_zc_after_insert(300))
        from harness import C16

        obs.append(C16.ob_query(2, 8, 200))  # file-backed recordings: the search reads its windows through QueryWav
        obs.append(ob_splice(False, False, 300))
        obs.append(ob_splice(True, False, 300))
        obs.append(ob_splice(False, True, 300, fixed=(3, 8)))
        obs.append(ob_splice(True, True, 300, fixed=(3, 8)))
    else:
        obs.append(ob_zc(5, 3, 2400, RATE=32))
        for n, st in ((4, 2.5), (5, 2.25), (5, 3.25), (6, 2.75)):
            obs.append(ob_zc(n, st, 2400))
        for n in (3, 4, 5, 6):
            for st in (1, 2, 3, 4):
                obs.append(ob_zc(n, st, 2400))
        for n in (4, 6, 8):
            for st in (2, 3):
                obs.append(ob_zc_nocrossing(n, st, 1200))
        for p in PATTERNS:
            obs.append(ob_tg_zc(p, 1200))
        obs.append(ob_tg_zc_flags(1200))
        obs.append(ob_tg_zc_points_same_crossing(1200))
        obs.append(ob_zc_after_insert(2400))
        for al in (False, True):
            for ws in (False, True):
                obs.append(ob_splice(al, ws, 2400))
    return obs
