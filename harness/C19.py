"""C19 - KlattGrid and point-object files round-trip every number exactly."""
import os
import shutil
import tempfile

from engine.hlib import *  # noqa

from praatio import klattgrid as kgio
from praatio import data_points
from praatio.data_classes import klattgrid as kgc
from praatio.data_classes import data_point as dpc
from praatio.utilities import errors

FUNCS = [
    "praatio.klattgrid._proccessContainerTierInput/_getSectionHeader/_buildEntries/_processSectionData/_findIndicies",
    "praatio.klattgrid._openNormalKlattgrid",
    "praatio.data_classes.klattgrid.KlattContainerTier.modifySubtiers / KlattPointTier.modifyValues",
    "praatio.data_classes.klattgrid.Klattgrid.save/getAsText/_cleanNumericValues/toIntOrFloat",
    "praatio.data_points._getNextValue/open1DPointObject/open2DPointObject",
    "praatio.data_classes.data_point.PointObject.save",
]
ASSUMPTIONS = [
    "reader obligations: the name `float` of praatio.klattgrid / praatio.data_points is bound to a recording stub; the obligation decides that exactly the number TOKEN written in the file reaches float() (float(repr(x)) == x is Python's contract); value tokens are symbolic strings over {1,5,.} of length 1..3",
    "writer side (repr-based, C-level) and _cleanNumericValues are exercised by the concrete cross-checks only (fixture and synthetic KlattGrids incl. tiny, huge, integer, zero and negative values; point objects with 17-digit and exponent values)",
    "io.open is the real one in the concrete cross-checks (scratch directory outside /repo and /verif)",
]
TOKS = []
TOKA = "15."


def _fl(tok):
    """recording stand-in for float(): remembers the token text; returns the real value for
    a concrete token and a placeholder for a symbolic one (the reader only branches on
    counts, which are concrete here)"""
    TOKS.append(tok)
    if type(tok) is str:
        return float(tok)
    return 1.0


def _setup_float():
    kgio.float = _fl
    data_points.float = _fl

    def undo():
        for m in (kgio, data_points):
            try:
                del m.float
            except AttributeError:
                pass

    return undo


def _container_text(style, t1, v1, t2, v2):
    """a container section as Klattgrid.save (style 'praatio': no trailing blanks) or Praat
    (style 'praat': trailing blank after every line) writes it: one formant tier with one
    point, one bandwidth tier with one point"""
    b = " " if style == "praat" else ""
    L = [
        "oral_formants? <exists>", "xmin = 0", "xmax = 1",
        "formants: size=1" if style == "praatio" else "formants: size = 1",
        "formants [1]:", "    xmin = 0", "    xmax = 1", "    points: size = 1", "    points [1]:",
        "        number = " + t1, "        value = " + v1,
        "bandwidths: size=1" if style == "praatio" else "bandwidths: size = 1",
        "bandwidths [1]:", "    xmin = 0", "    xmax = 1", "    points: size = 1", "    points [1]:",
        "        number = " + t2, "        value = " + v2,
    ]
    return (b + "\n").join(L) + b


REF = ["0.5", "75", "0.25", "7.25"]


def ob_container(style, which, maxlen, timeout):
    def pre(tok):
        return in_alphabet(tok, TOKA, maxlen) and len(tok) >= 1 and tok[0] != "." and tok[-1] != "." and tok.count(".") <= 1

    def body(tok):
        vals = list(REF)
        vals[which] = tok
        text = _container_text(style, *vals)
        del TOKS[:]
        kct = kgio._proccessContainerTierInput(text, "oral_formants")
        if list(kct.tierNameList) != ["formants", "bandwidths"]:
            return "intermediate tiers"
        if [len(kct.tierDict[n].tierDict[n + " [1]"].entries) for n in ("formants", "bandwidths")] != [1, 1]:
            return "point count"
        # per sub-tier the reader converts: xmin, xmax, number of points, then time and value
        want = ["0", "1", "1", vals[0], vals[1], "0", "1", "1", vals[2], vals[3]]
        if len(TOKS) != len(want):
            return "number of values read"
        for a, b in zip(TOKS, want):
            if a != b:
                return "token handed to float() differs from the token in the file"
        return True

    return Ob("container-%s-tok%d-len%d" % (style, which, maxlen), S("tok"), body, pre, timeout=timeout, setup=_setup_float, funcs=FUNCS[:1], bounds="container section with 2 sub-tiers x 1 point (%s layout); symbolic token at position %d (0: first time, 1: first value, 2: last time, 3: LAST value of the section), 1..%d chars over {1,5,.}" % (style, which, maxlen))


def ob_next_value(maxlen, timeout):
    def pre(tok, tok2):
        return in_alphabet(tok, TOKA + "e-", maxlen) and in_alphabet(tok2, TOKA, 2) and len(tok) >= 1 and len(tok2) >= 1

    def body(tok, tok2):
        data = "    number = " + tok + "\n    value = " + tok2 + "\n"
        start = data.index("=")
        v, nxt = data_points._getNextValue(data, start)
        if v.strip() != tok:
            return "first value token"
        start = data.index("=", nxt)
        v2, nxt2 = data_points._getNextValue(data, start)
        return True if v2.strip() == tok2 else "second value token"

    return Ob("pointobject-next-value", S("tok", "tok2"), body, pre, timeout=timeout, funcs=FUNCS[4:5], bounds="two `= token` rows, tokens <= %d chars" % maxlen)


def ob_modify(n, timeout):
    """modifyValues applies the function exactly once per value, keeps the times and leaves
    sibling tiers untouched (function = symbolic affine map, applied through a recorder)"""
    names = ["a", "b"] + ["v%d" % i for i in range(n)] + ["t%d" % i for i in range(n)]

    def pre(a, b, *rest):
        return within(-100.0, 100.0, a, b, *rest)

    def body(a, b, *rest):
        vs, ts = rest[:n], rest[n:]
        calls = []

        def f(x):
            calls.append(x)
            return a * x + b

        t1 = kgc.KlattSubPointTier("formants [1]", [(ts[i], vs[i]) for i in range(n)], 0.0, 100.0)
        t2 = kgc.KlattSubPointTier("formants [2]", [(ts[i], vs[i]) for i in range(n)], 0.0, 100.0)
        other = kgc.KlattSubPointTier("bandwidths [1]", [(ts[i], vs[i]) for i in range(n)], 0.0, 100.0)
        kf = kgc.KlattIntermediateTier("formants")
        kf.addTier(t1)
        kf.addTier(t2)
        kb = kgc.KlattIntermediateTier("bandwidths")
        kb.addTier(other)
        amp = kgc.KlattSubPointTier("oral_formants_amplitudes [1]", [(ts[i], vs[i]) for i in range(n)], 0.0, 100.0)
        ka = kgc.KlattIntermediateTier("oral_formants_amplitudes")  # a name that contains "formants"
        ka.addTier(amp)
        kct = kgc.KlattContainerTier("nasal_antiformants")
        kct.addTier(kf)
        kct.addTier(kb)
        kct.addTier(ka)
        before_other = [tuple(e) for e in other.entries]
        before_amp = [tuple(e) for e in amp.entries]
        order = sorted(range(n), key=lambda i: (ts[i], vs[i]))
        kct.modifySubtiers("formants", f)
        if len(calls) != 2 * n:
            return "function not applied exactly once per value"
        for t in (t1, t2):
            got = [tuple(e) for e in t.entries]
            want = [(ts[i], a * vs[i] + b) for i in order]
            if got != want:
                return "values/times after modification"
        if [tuple(e) for e in other.entries] != before_other or [tuple(e) for e in amp.entries] != before_amp:
            return "tier that was not addressed changed"
        try:
            kct.modifySubtiers("formant", f)
        except KeyError:
            return True
        return "a name that is no intermediate tier was accepted"

    return Ob("modify-subtiers-n%d" % n, F(*names), body, pre, fmode="real", timeout=timeout, funcs=FUNCS[2:3], bounds="2 addressed sub-tiers + 2 others (one in an intermediate tier whose name contains the addressed name), %d points each, symbolic affine modification" % n)


# ----------------------------------------------------------------- concrete cross-checks
def _dump(kg):
    out = []
    for n in kg.tierNames:
        t = kg.getTier(n)
        if hasattr(t, "tierNameList"):
            out.append((n, t.minTimestamp, t.maxTimestamp, [(n2, [(n3, t.tierDict[n2].tierDict[n3].minTimestamp, t.tierDict[n2].tierDict[n3].maxTimestamp, [tuple(e) for e in t.tierDict[n2].tierDict[n3].entries]) for n3 in t.tierDict[n2].tierNameList]) for n2 in t.tierNameList]))
        else:
            out.append((n, t.minTimestamp, t.maxTimestamp, [tuple(e) for e in t.entries]))
    return out


MODS = [None, ("oral_formants", "formants", lambda v: v * 1.1), ("oral_formants", "bandwidths", lambda v: v / 3.0), ("oral_formants", "formants", lambda v: v * 1e-13), ("oral_formants", "formants", lambda v: 0), ("oral_formants", "formants", lambda v: 75), ("oral_formants", "formants", lambda v: -v), ("oral_formants", "formants", lambda v: v * 1e12 + 0.1)]


def ob_klatt_concrete():
    fixture = os.path.join(ROOT, "tests", "files", "bobby.KlattGrid")

    def check(m):
        d = tempfile.mkdtemp(prefix="verif_c19_")
        try:
            kg = kgio.openKlattgrid(fixture)
            mod = MODS[m]
            if mod is not None:
                other_before = _dump(kg)
                kg.getTier(mod[0]).modifySubtiers(mod[1], mod[2])
                ref = kgio.openKlattgrid(fixture)
                exp = _dump(ref)
                for entry in exp:
                    if entry[0] == mod[0]:
                        for n2, subs in entry[3]:
                            if n2 == mod[1]:
                                for s in subs:
                                    s[3][:] = [(t, mod[2](float(v))) for (t, v) in s[3]]
                if _dump(kg) != exp:
                    return "modifySubtiers changed something else / not every value exactly once"
            want = _dump(kg)
            fn = os.path.join(d, "a.KlattGrid")
            kg.save(fn)
            kg2 = kgio.openKlattgrid(fn)
            if _dump(kg2) != want:
                return "open(save(kg)) differs from kg"
            fn2 = os.path.join(d, "b.KlattGrid")
            kg2.save(fn2)
            if _dump(kgio.openKlattgrid(fn2)) != want:
                return "second save/open cycle changes the values"
            # state carried between two saves of the same object: save, change values directly on one
            # sub-tier (modifyValues) and through the container (modifySubtiers), save again
            sub = kg2.getTier("oral_formants").tierDict["formants"]
            first = sub.tierDict[sub.tierNameList[1]]
            first.modifyValues(lambda v: v * 0.3 + 1)
            kg2.getTier("oral_formants").modifySubtiers("bandwidths", lambda v: v + 0.125)
            want3 = _dump(kg2)
            if want3 == want:
                return "harness: modification had no effect"
            fn3 = os.path.join(d, "c.KlattGrid")
            kg2.save(fn3)
            if _dump(kgio.openKlattgrid(fn3)) != want3:
                return "values changed after an earlier save are not in the next saved file"
            return True
        finally:
            shutil.rmtree(d, ignore_errors=True)

    def run():
        for m in range(len(MODS)):
            try:
                r = check(m)
            except Exception as ex:  # noqa
                r = "exception " + type(ex).__name__ + ": " + str(ex)[:100]
            if r is not True:
                return {"verdict": "REFUTED", "queries": m + 1, "cex_args": {"m": m}, "message": str(r), "refute_kind": "CONCRETE"}
        return {"verdict": "CONFIRMED", "queries": len(MODS), "detail": "concrete cross-check on the reference KlattGrid with %d value modifications" % len(MODS)}

    return Ob("klattgrid-files-concrete", I("m"), check, kind="smt", smt=run, timeout=600, funcs=FUNCS[1:4], bounds="concrete cross-check: reference KlattGrid, open/modify/save/open/save with scalings by non-terminating decimals, tiny and huge magnitudes, integer and zero constants, sign change")


def _synthetic(vals, nf=1):
    """a small KlattGrid as Praat writes it, whose LAST tier (gain) holds points; nf = number
    of oral formants (0: the container has no sub-tiers at all)"""
    t, v1, v2, v3, g = vals
    if nf != 1:
        def sub(name, v):
            out = "%s: size = %d \n" % (name, nf)
            for i in range(nf):
                out += "%s [%d]:\n    xmin = 0 \n    xmax = 1 \n    points: size = 1 \n    points [1]:\n        number = %s \n        value = %s \n" % (name, i + 1, t, v)
            return out
        return ('File type = "ooTextFile"\nObject class = "KlattGrid"\n\nxmin = 0 \nxmax = 1 \n'
                'pitch? <exists> \nxmin = 0 \nxmax = 1 \npoints: size = 1 \npoints [1]:\n    number = ' + t + ' \n    value = ' + v1 + ' \n'
                'oral_formants? <exists> \nxmin = 0 \nxmax = 1 \n' + sub("formants", v2) + sub("bandwidths", v3) +
                'gain? <exists> \nxmin = 0 \nxmax = 1 \npoints: size = 2 \npoints [1]:\n    number = 0.25 \n    value = 7 \npoints [2]:\n    number = ' + t + ' \n    value = ' + g + ' \n')
    return ('File type = "ooTextFile"\nObject class = "KlattGrid"\n\nxmin = 0 \nxmax = 1 \n'
            'pitch? <exists> \nxmin = 0 \nxmax = 1 \npoints: size = 1 \npoints [1]:\n    number = ' + t + ' \n    value = ' + v1 + ' \n'
            'oral_formants? <exists> \nxmin = 0 \nxmax = 1 \nformants: size = 1 \nformants [1]:\n    xmin = 0 \n    xmax = 1 \n    points: size = 1 \n    points [1]:\n        number = ' + t + ' \n        value = ' + v2 + ' \n'
            'bandwidths: size = 1 \nbandwidths [1]:\n    xmin = 0 \n    xmax = 1 \n    points: size = 1 \n    points [1]:\n        number = ' + t + ' \n        value = ' + v3 + ' \n'
            'gain? <exists> \nxmin = 0 \nxmax = 1 \npoints: size = 2 \npoints [1]:\n    number = 0.25 \n    value = 7 \npoints [2]:\n    number = ' + t + ' \n    value = ' + g + ' \n')


SYN = [("0.5", "98.5", "50", "7", "60.25"), ("0.30000000000000004", "1e-05", "2519.3075148880134", "0", "1.2345678901234567e-05"), ("0.75", "-3.5", "75", "7.25", "123456789"), ("0.625", "3e-17", "5e-324", "-2.5e-13", "1e-300")]


def ob_klatt_synthetic_concrete():
    def check(i, nf=1):
        d = tempfile.mkdtemp(prefix="verif_c19_")
        try:
            kg = kgio._openNormalKlattgrid(_synthetic(SYN[i], nf))
            want = _dump(kg)
            last = want[-1][3]
            if last != [(0.25, 7.0), (float(SYN[i][0]), float(SYN[i][4]))]:
                return "last tier read as %r" % (last,)
            cont = [x for x in want if x[0] == "oral_formants"]
            if len(cont) != 1 or [(n2, len(subs)) for n2, subs in cont[0][3]] != [("formants", nf), ("bandwidths", nf)]:
                return "oral_formants with %d formants read as %r" % (nf, cont)
            if (cont[0][1], cont[0][2]) != (0.0, 1.0):
                return "span of the oral_formants container read as %r" % ((cont[0][1], cont[0][2]),)
            fn = os.path.join(d, "a.KlattGrid")
            kg.save(fn)
            back = kgio.openKlattgrid(fn)
            if _dump(back) != want:
                return "open(save(kg)) differs from kg: %r" % (_dump(back)[-1],)
            fn2 = os.path.join(d, "b.KlattGrid")
            back.save(fn2)
            if _dump(kgio.openKlattgrid(fn2)) != want:
                return "second cycle differs"
            return True
        finally:
            shutil.rmtree(d, ignore_errors=True)

    def run():
        n = 0
        for nf in (1, 0, 2, 3, 11):
            for i in range(len(SYN)):
                n += 1
                try:
                    r = check(i, nf)
                except Exception as ex:  # noqa
                    r = "exception " + type(ex).__name__ + ": " + str(ex)[:100]
                if r is not True:
                    return {"verdict": "REFUTED", "queries": n, "cex_args": {"i": i, "nf": nf}, "message": str(r), "refute_kind": "CONCRETE"}
        return {"verdict": "CONFIRMED", "queries": n, "detail": "concrete cross-check"}

    return Ob("klattgrid-synthetic-concrete", I("i", "nf"), check, kind="smt", smt=run, timeout=120, funcs=FUNCS[1:4], bounds="concrete cross-check: synthetic KlattGrids with 0, 1, 2, 3 and 11 oral formants whose last tier holds points (values with 17 digits, exponents, integers, zero, negative)")


# the point list is kept exactly as given: also when it is not in time order, or has two points at the same time
PTS = [[], [(0.5, 100.0)], [(1.2345678901234567e-05, 3e-17), (0.1 + 0.2, 5e-324), (7.0, 75.0), (1e16, 1.7976931348623157e308)], [(0.25, 0.0), (1 / 3.0, 2 / 3.0)], [(0.75, 9.0), (0.5, 2.0), (0.5, 1.0), (0.25, 5.0)]]


def ob_points_concrete():
    def check(c, p):
        cls = ["PointProcess", "PitchTier", "DurationTier"][c]
        pts = PTS[p]
        d = tempfile.mkdtemp(prefix="verif_c19_")
        try:
            fn = os.path.join(d, "a.txt")
            if cls == "PointProcess":
                po = dpc.PointObject1D([(t,) for t, _ in pts], cls, 0, 2e16)
                po.save(fn)
                back = data_points.open1DPointObject(fn)
            else:
                po = dpc.PointObject2D(list(pts), cls, 0, 2e16)
                po.save(fn)
                back = data_points.open2DPointObject(fn)
            if back.objectClass != po.objectClass or (back.minTime, back.maxTime) != (po.minTime, po.maxTime):
                return "class/span"
            if back.pointList != po.pointList:
                return "point list %r" % (back.pointList,)
            # the long text encoding of the same data opens to an equal object
            L = ['File type = "ooTextFile"', 'Object class = "%s"' % cls, "", "xmin = %r " % po.minTime, "xmax = %r " % po.maxTime]
            if cls == "PointProcess":
                L += ["nt = %d " % len(pts), "t []: "]
                for i, row in enumerate(po.pointList):
                    L.append("    t [%d] = %r " % (i + 1, row[0]))
            else:
                L.append("points: size = %d " % len(pts))
                for i, row in enumerate(po.pointList):
                    L.append("points [%d]:" % (i + 1))
                    L.append("    number = %r " % row[0])
                    L.append("    value = %r " % row[1])
            fn2 = os.path.join(d, "b.txt")
            with open(fn2, "w", encoding="utf-8") as fd:
                fd.write("\n".join(L) + "\n")
            back2 = data_points.open1DPointObject(fn2) if cls == "PointProcess" else data_points.open2DPointObject(fn2)
            if not (back2 == back):
                return "long and short encodings open to different objects"
            return True
        finally:
            shutil.rmtree(d, ignore_errors=True)

    def run():
        n = 0
        for c in range(3):
            for p in range(len(PTS)):
                n += 1
                try:
                    r = check(c, p)
                except Exception as ex:  # noqa
                    r = "exception " + type(ex).__name__ + ": " + str(ex)[:100]
                if r is not True:
                    return {"verdict": "REFUTED", "queries": n, "cex_args": {"c": c, "p": p}, "message": str(r), "refute_kind": "CONCRETE"}
        return {"verdict": "CONFIRMED", "queries": n, "detail": "concrete cross-check"}

    return Ob("pointobject-files-concrete", I("c", "p"), check, kind="smt", smt=run, timeout=300, funcs=FUNCS[4:6], bounds="concrete cross-check: 3 object classes x point lists with 0..4 points (integers, 17-digit decimals, exponents, extremes)")



# ---- writer side: the only place where Klattgrid.save may replace a number token ---------
def _clean_zero_smt():
    """the `except ValueError:` arm of _cleanNumericValues (a token that is not an int literal),
    sliced from the current source; `tail` stands for a token denoting the binary64 number x.
    Claim: the token that is written denotes x (it is the token itself, or "0" only if x == 0)."""
    import ast
    import z3
    from engine import ksmt
    from harness.fp_kernels import _solve

    fdef = ksmt.func_ast(kgc._cleanNumericValues)
    arm = None
    for n in ast.walk(fdef):
        if isinstance(n, ast.Try) and any("int(tail)" in ast.unparse(st) for st in n.body):
            for h in n.handlers:
                if h.type is not None and "ValueError" in ast.unparse(h.type):
                    arm = h
    if arm is None:
        raise ksmt.AnchorMissing("`except ValueError:` arm after `str(int(tail))` in _cleanNumericValues")
    x = z3.FP("x", ksmt.F64)

    def make_env():
        env = dict(kgc._cleanNumericValues.__globals__)
        env.update({"tail": x, "head": "value", "row": "value = <tok>"})
        return env

    assume = [z3.Not(z3.fpIsNaN(x)), z3.Not(z3.fpIsInf(x))]
    claims = []
    for pc, env, oc in ksmt.explore(arm.body, make_env):
        if oc[0] == "raise":
            claims.append((pc, False))  # caught by the outer handler: the row is written unchanged
            continue
        if oc[0] != "fall":
            raise ksmt.Unsupported("outcome %r in the float arm of _cleanNumericValues" % (oc[0],))
        t = env.get("tail")
        while isinstance(t, ksmt.Fmt) and t.template in ("%s", "repr") and len(t.args) == 1:
            t = t.args[0]
        if t is x:
            claims.append((pc, False))
        elif isinstance(t, str):
            try:
                c = float(t)
            except ValueError:
                claims.append((pc, True))
                continue
            claims.append((pc, z3.Not(z3.fpEQ(x, ksmt.fpv(c)))))
        else:
            raise ksmt.Unsupported("token rewritten to %r in _cleanNumericValues" % (t,))
    return _solve(claims, {"x": x}, assume, 120)


def _clean_zero_replay(x):
    out = kgc._cleanNumericValues("    number = 0.5\n    value = %r" % (x,))
    rows = out.split("\n")
    if len(rows) != 2 or "=" not in rows[1]:
        return "row structure changed: %r" % (out,)
    tok = rows[1].split("=")[1].strip()
    try:
        v = float(tok)
    except ValueError:
        return "value %r written as %r" % (x, tok)
    if v != x:
        return "value %r written as %r" % (x, tok)
    return True


def ob_clean_zero():
    from harness.fp_kernels import _guard

    return Ob("klattgrid-clean-token-fp", F("x"), _clean_zero_replay, kind="smt", smt=_guard(_clean_zero_smt), timeout=300, funcs=["praatio.data_classes.klattgrid._cleanNumericValues"], bounds="all finite binary64 x: the float arm of _cleanNumericValues (token is not an int literal) writes a token denoting x; QF_FP, z3 + cvc5")

def obligations(tier):
    obs = []
    if tier == "quick":
        ml, T = 2, 600
        for style in ("praatio", "praat"):
            obs.append(ob_container(style, 3, ml, T))
        obs.append(ob_modify(2, 300))
        obs.append(ob_next_value(3, 300))
    else:
        for style in ("praatio", "praat"):
            obs.append(ob_container(style, 3, 3, 3400))
        obs.append(ob_container("praatio", 2, 1, 3400))  # non-last position: text after the token has symbolic offsets (slow)
        for n in (0, 1, 2, 3):
            obs.append(ob_modify(n, 1200))
        obs.append(ob_next_value(4, 1800))
    obs.append(ob_clean_zero())
    obs.append(ob_klatt_concrete())
    obs.append(ob_klatt_synthetic_concrete())
    obs.append(ob_points_concrete())
    return obs
