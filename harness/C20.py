"""C20 - numeric series helpers match their textbook definitions."""
from engine.hlib import *  # noqa

from praatio.utilities import my_math, errors
from praatio import pitch_and_intensity as pi

FUNCS = [
    "praatio.utilities.my_math.medianFilter/_stepFilter",
    "praatio.utilities.my_math.znormalizeData",
    "praatio.utilities.my_math.rms",
    "praatio.pitch_and_intensity.getPitchMeasures",
    "praatio.pitch_and_intensity.detectPitchErrors",
    "praatio.pitch_and_intensity.loadTimeSeriesData",
    "praatio.utilities.my_math.filterTimeSeriesData",
]
ASSUMPTIONS = [
    "environment stubs: math.sqrt / statistics.mean / statistics.stdev (C-level or Fraction-based, concretised by CrossHair) are replaced by recorders: the obligations decide the ARGUMENT handed to sqrt/stdev and the arithmetic around it; the value of the root is Python's",
    "detectPitchErrors: pitch values > 0 (a jump ratio is undefined at 0); the label text str(ratio) is stubbed",
    "loadTimeSeriesData: io.open and float() of the module are stubs (file system / C-level parse); the obligation decides which token of which row reaches float() and the row bookkeeping",
]


def ref_median_filter(xs, window, pad):
    n = len(xs)
    off = window // 2
    out = []
    for i in range(n):
        if pad or (i - off >= 0 and i + off < n):
            ctx = [xs[min(max(j, 0), n - 1)] for j in range(i - off, i + off + 1)]
            out.append(sorted(ctx)[off])
        else:
            out.append(xs[i])
    return out


def ob_median(n, window, pad, typ, timeout):
    names = ["x%d" % i for i in range(n)]
    params = I(*names) if typ == "int" else F(*names)

    def pre(*xs):
        return within(-1000, 1000, *xs) if xs else True

    def body(*xs):
        xs = list(xs)
        before = list(xs)
        got = my_math.medianFilter(xs, window, pad)
        if xs != before:
            return "input mutated"
        if len(got) != n:
            return "length changed"
        return True if got == ref_median_filter(before, window, pad) else "median filter differs from the textbook definition"

    return Ob("median-%s-n%d-w%d-%s" % (typ, n, window, "pad" if pad else "nopad"), params, body, pre, fmode=("real" if typ == "float" else None), timeout=timeout, funcs=FUNCS[:1], bounds="series of %d symbolic %ss, window %d, padding %s" % (n, typ, window, pad),
              canaries=[{"target": "praatio.utilities.my_math:_stepFilter", "find": "if x + y >= length:", "replace": "if x + y > length:"}] if (n, window, pad, typ) == (4, 3, True, "int") else [])


class _Rec:
    def __init__(self):
        self.calls = []


SQ = _Rec()
ST = _Rec()
ST.value = 2.0


class _FakeMath:
    @staticmethod
    def sqrt(x):
        SQ.calls.append(x)
        return ("sqrt", len(SQ.calls))

    @staticmethod
    def floor(x):
        import math

        return math.floor(x)


class _FakeStatistics:
    @staticmethod
    def mean(xs):
        xs = list(xs)
        return sum(xs) / len(xs)

    @staticmethod
    def stdev(xs):
        ST.calls.append(list(xs))
        return ST.value

    @staticmethod
    def median(xs):
        import statistics

        return statistics.median(xs)


def _setup_math():
    old = (my_math.math, my_math.statistics, pi.math)
    my_math.math = _FakeMath
    my_math.statistics = _FakeStatistics
    pi.math = _FakeMath
    pi.print = lambda *a, **k: None

    def undo():
        my_math.math, my_math.statistics, pi.math = old
        try:
            del pi.print
        except AttributeError:
            pass

    return undo


def ob_rms(n, timeout):
    names = ["x%d" % i for i in range(n)]

    def body(*xs):
        del SQ.calls[:]
        r = my_math.rms(list(xs))
        if len(SQ.calls) != 1 or r != ("sqrt", 1):
            return "sqrt not applied exactly once as the result"
        return True if SQ.calls[0] == sum(x * x for x in xs) / n else "argument of the root is not the mean of squares"

    return Ob("rms-n%d" % n, F(*names), body, lambda *xs: within(-100.0, 100.0, *xs), fmode="real", timeout=timeout, setup=_setup_math, funcs=FUNCS[2:3], bounds="%d symbolic reals in [-100,100]" % n)


def ob_znorm(n, timeout):
    names = ["sd"] + ["x%d" % i for i in range(n)]

    def body(sd, *xs):
        del ST.calls[:]
        ST.value = sd  # what the (stubbed) statistics.stdev answers: any positive real, however small
        xs = list(xs)
        try:
            out = my_math.znormalizeData(xs)
        finally:
            ST.value = 2.0
        if len(out) != n:
            return "length"
        if len(ST.calls) != 1 or ST.calls[0] != xs:
            return "sample standard deviation not taken of the input exactly once"
        m = sum(xs) / n
        for i in range(n):
            if out[i] != (xs[i] - m) / sd:
                return "z(v) != (v - mean) / sd"
        if sum(out) != 0:
            return "mean of the output is not 0"
        for i in range(n):
            for j in range(n):
                if (xs[i] < xs[j]) != (out[i] < out[j]):
                    return "rank order not preserved"
        return True

    return Ob("znormalize-n%d" % n, F(*names), body, lambda sd, *xs: within(-100.0, 100.0, *xs) & (sd > 0) & (sd <= 100.0), fmode="real", timeout=timeout, setup=_setup_math, funcs=FUNCS[1:2], bounds="%d symbolic reals; the sd stub returns an arbitrary real in (0,100]" % n)


def ob_pitch_measures(n, filt_zero, median_w, timeout):
    names = ["x%d" % i for i in range(n)]

    def body(*xs):
        del SQ.calls[:]
        vals = list(xs)
        r = pi.getPitchMeasures(list(vals), "f", "l", median_w, filt_zero)
        if median_w is not None:
            vals = ref_median_filter(vals, median_w, True)
        if filt_zero:
            vals = [v for v in vals if v != 0]
        if not vals:
            return True if tuple(r) == (0.0, 0.0, 0.0, 0.0, 0.0, 0.0) else "empty series"
        cnt = len(vals)
        mean = sum(vals) / cnt
        mx, mn = max(vals), min(vals)
        var = sum((v - mean) * (v - mean) for v in vals) / cnt
        if r[0] != mean:
            return "mean"
        if r[1] != mx or r[2] != mn or r[3] != mx - mn:
            return "max/min/range"
        if r[4] != var:
            return "population variance"
        if len(SQ.calls) != 1 or SQ.calls[0] != var or r[5] != ("sqrt", 1):
            return "deviation is not the root of the variance"
        return True

    return Ob("pitchmeasures-n%d-%s-%s" % (n, "nozeros" if filt_zero else "raw", "med%d" % median_w if median_w else "nomed"), F(*names), body, lambda *xs: within(-100.0, 100.0, *xs), fmode="real", timeout=timeout, setup=_setup_math, funcs=FUNCS[3:4], bounds="%d symbolic reals (zeros and |v|<1 included)" % n,
              canaries=[{"target": "praatio.pitch_and_intensity:getPitchMeasures", "find": "if f0Val != 0]", "replace": "if int(f0Val) != 0]"}] if (filt_zero and n == 2) else [])


def ob_variance_ieee(n, timeout):
    """binary64: the population variance is the mean of the squared deviations evaluated as
    the definition reads (hence never negative; an algebraically equivalent one-pass formula
    differs by cancellation and can go negative)"""
    names = ["x%d" % i for i in range(n)]

    def body(*xs):
        del SQ.calls[:]
        r = pi.getPitchMeasures(list(xs), "f", "l", None, False)
        mean = sum(xs) / float(n)
        var = sum([(v - mean) ** 2 for v in xs]) / float(n)
        return True if r[4] == var else "variance is not the mean squared deviation (binary64, evaluated as the definition reads)"

    return Ob("pitchmeasures-variance-ieee-n%d" % n, F(*names), body, lambda *xs: within(1.0, 1000.0, *xs), fmode="ieee", timeout=timeout, setup=_setup_math, funcs=FUNCS[3:4], bounds="%d binary64 values in [1,1000]" % n)


def _setup_pitch_err():
    pi.str = lambda x: "<ratio>"

    def undo():
        try:
            del pi.str
        except AttributeError:
            pass

    return undo


def ob_pitch_errors(n, thr, timeout):
    names = ["p%d" % i for i in range(n)]

    def body(*ps):
        track = [(float(i), ps[i]) for i in range(n)]
        errs, tg = pi.detectPitchErrors(track, thr)
        want = []
        for i in range(1, n):
            last, cur = ps[i - 1], ps[i]
            if last <= cur * thr or last * thr >= cur:
                want.append(float(i))
        if tg is not None:
            return "textgrid invented"
        return True if [e[0] for e in errs] == want else "flagged samples differ from 'jump by more than the ratio'"

    return Ob("pitcherrors-n%d-thr%s" % (n, thr), F(*names), body, lambda *ps: within(1.0, 1000.0, *ps), fmode="real", timeout=timeout, setup=_setup_pitch_err, funcs=FUNCS[4:5], bounds="%d pitch values in [1,1000], threshold %s" % (n, thr))


def ob_pitch_errors_badthr(timeout):
    def body(t):
        try:
            pi.detectPitchErrors([(0.0, 100.0), (1.0, 200.0)], t)
        except errors.ArgumentError:
            return True if (t < 0 or t > 1) else "valid threshold rejected"
        return True if 0 <= t <= 1 else "threshold outside [0,1] accepted"

    return Ob("pitcherrors-threshold-range", F("t"), body, lambda t: within(-2.0, 3.0, t) & ((t > 0.001) | (t < 0)), fmode="real", timeout=timeout, setup=_setup_pitch_err, funcs=FUNCS[4:5], bounds="threshold in [-2,3]")


# ------------------------------------------------------------------- loadTimeSeriesData
TOK = []
TEXT = [""]


class _FD:
    def __enter__(self):
        return self

    def __exit__(self, *a):
        return False

    def read(self):
        return TEXT[0]


class _FakeIO:
    @staticmethod
    def open(*a, **k):
        return _FD()


def _setup_load():
    old = pi.io
    pi.io = _FakeIO

    def fl(tok):
        TOK.append(tok)
        return ("F", tok)

    pi.float = fl

    def undo():
        pi.io = old
        try:
            del pi.float
        except AttributeError:
            pass

    return undo


CELL = "1-."


def ob_load(header, undef, timeout):
    def pre(a, b, c, d):
        return all(in_alphabet(x, CELL, 2) and len(x) >= 1 for x in (a, b, c, d))

    def body(a, b, c, d):
        rows = [["0.1", a, b], ["0.2", c, d]]
        text = ("time,pitch,intensity\n" if header else "") + "\n".join(",".join(r) for r in rows) + "\n\n"
        TEXT[0] = text
        del TOK[:]
        uv = None if undef is None else undef
        got = pi.loadTimeSeriesData("dir/x.txt", uv)
        want = []
        for r in rows:
            if any("--" in v for v in r[1:]):
                if uv is None:
                    continue
                want.append(tuple([("F", r[0])] + [uv if "--" in v else ("F", v) for v in r[1:]]))
            else:
                want.append(tuple(("F", v) for v in r))
        return True if got == want else "rows differ"

    return Ob("load-%s-%s" % ("header" if header else "noheader", "skip" if undef is None else "subst"), S("a", "b", "c", "d"), body, pre, timeout=timeout, setup=_setup_load, funcs=FUNCS[5:6], bounds="2 rows x 2 value columns, cells 1-2 chars over {1,-,.} (so '--' can appear in any column)")


def ob_filter_ts(timeout):
    def body(a, b, c):
        rows = [(0.0, a, "k0"), (1.0, b, "k1"), (2.0, c, "k2")]
        out = my_math.filterTimeSeriesData(my_math.medianFilter, rows, 3, 1, True)
        med = ref_median_filter([a, b, c], 3, True)
        want = [[rows[i][0], med[i], rows[i][2]] for i in range(3)]
        return True if out == want else "filter changed number/order of rows or other columns"

    return Ob("filter-timeseries-n3", F("a", "b", "c"), body, lambda a, b, c: within(-100.0, 100.0, a, b, c), fmode="real", timeout=timeout, funcs=FUNCS[6:7] + FUNCS[:1], bounds="3 rows, filtered column 1")


def obligations(tier):
    obs = []
    if tier == "quick":
        for n, w, p in ((4, 3, True), (4, 3, False), (4, 5, True), (3, 4, True), (4, 0, True), (0, 3, True), (1, 5, True), (4, 8, False), (4, 2, True), (4, 4, True), (5, 4, False), (3, 3, False), (5, 5, False)):
            obs.append(ob_median(n, w, p, "int", 120))
        obs.append(ob_median(4, 5, True, "float", 120))
        obs.append(ob_median(4, 3, False, "float", 120))
        obs.append(ob_rms(3, 60))
        obs.append(ob_znorm(3, 120))
        obs.append(ob_pitch_measures(3, False, None, 120))
        obs.append(ob_pitch_measures(2, True, None, 120))
        obs.append(ob_pitch_measures(3, True, 3, 200))
        obs.append(ob_pitch_measures(4, False, 5, 300))
        obs.append(ob_variance_ieee(2, 40))  # bug hunting only at this budget: reported UNKNOWN, never success
        for thr in (0.5, 0.7, 1.0):
            obs.append(ob_pitch_errors(3, thr, 120))
        obs.append(ob_pitch_errors_badthr(30))
        obs.append(ob_load(True, None, 300))
        obs.append(ob_load(False, 0.0, 300))
        obs.append(ob_filter_ts(60))
    else:
        for n in range(0, 6):
            for w in range(0, 9):
                for p in (True, False):
                    obs.append(ob_median(n, w, p, "int", 600))
        for n in (3, 4, 5):
            for w in (3, 4, 5):
                for p in (True, False):
                    obs.append(ob_median(n, w, p, "float", 600))
        for n in (1, 2, 3, 4):
            obs.append(ob_rms(n, 300))
            obs.append(ob_znorm(max(n, 2), 600))
            for fz in (False, True):
                for mw in (None, 3, 4, 5):
                    obs.append(ob_pitch_measures(n, fz, mw, 600))
        for n in (1, 2, 3):
            obs.append(ob_variance_ieee(n, 1800))
        for thr in (0.5, 0.7, 1.0):
            for n in (2, 3, 4):
                obs.append(ob_pitch_errors(n, thr, 600))
        obs.append(ob_pitch_errors_badthr(60))
        for h in (True, False):
            for u in (None, 0.0):
                obs.append(ob_load(h, u, 1200))
        obs.append(ob_filter_ts(300))
    names = set()
    out = []
    for o in obs:
        if o.name not in names:
            names.add(o.name)
            out.append(o)
    return out
