"""Shim self-tests (run by setup.sh through engine/selftest.py)."""
import math
from engine.hlib import *  # noqa

ALPHA = '"a \n=1'


def obligations(tier):
    obs = []

    def pre_s(s):
        return in_alphabet(s, ALPHA, 3)

    def slicing(s):
        q = '"' + s + '"'
        if q[1:-1] != s:
            return "[1:-1]"
        if q[:-1] != '"' + s:
            return "[:-1]"
        if q[-1] != '"' or q[0] != '"':
            return "[-1]"
        if (s + "xy")[-2:] != "xy":
            return "[-2:]"
        return True

    obs.append(Ob("shim-negative-slice", S("s"), slicing, pre_s, timeout=120))

    def pct(s, n):
        if ('text = "%s" \n' % s) != 'text = "' + s + '" \n':
            return "%s"
        if ("%s\n%s\n" % (s, s)) != s + "\n" + s + "\n":
            return "%s%s"
        if ("size = %d \n" % n) != "size = " + str(n) + " \n":
            return "%d"
        if ("100%% %s" % s) != "100% " + s:
            return "%%"
        return True

    obs.append(Ob("shim-percent", S("s") + I("n"), pct, lambda s, n: pre_s(s) and 0 <= n <= 20, timeout=120))

    def isclose_def(a, b):
        # definition from the Python documentation
        want = abs(a - b) <= max(1e-09 * max(abs(a), abs(b)), 0.0)
        return True if math.isclose(a, b) == want else "isclose"

    obs.append(Ob("shim-isclose-real", F("a", "b"), isclose_def, lambda a, b: within(-1e6, 1e6, a, b), fmode="real", timeout=120))

    def fmt(a, s):
        t = f"value {a} in {s}"
        return True if (t.endswith(" in " + s) and f"{s}-{s}" == s + "-" + s) else "fmt"

    obs.append(Ob("shim-format", F("a") + S("s"), fmt, lambda a, s: pre_s(s) & (a >= 0) & (a <= 1), fmode="real", timeout=120))

    # a deliberately false claim: must come back REFUTED with a replayable input
    def false_claim(a, b):
        return True if not (a < b and b - a < 0.25 and a > 3) else "refutable"

    obs.append(Ob("engine-refutes-false-claim", F("a", "b"), false_claim, lambda a, b: within(0.0, 10.0, a, b), fmode="ieee", timeout=120))
    return obs
