"""KSMT-fp obligations: rounding clauses of C07 / C08 / C16 decided on kernels sliced
from the current source (engine/ksmt.py), witnesses replayed through the public API."""
import ast

from engine.hlib import *  # noqa

from praatio.data_classes.interval_tier import IntervalTier
from praatio.utilities.constants import Interval
from praatio.utilities import errors

TWO20 = 1048576.0


def _solve(paths_claims, variables, assumptions, timeout_s):
    """paths_claims: list of (pc, violated: z3 Bool or python bool).  Returns smt record."""
    import z3
    from engine import ksmt

    queries = 0
    total = 0.0
    unknown = []
    notes = []
    for i, (pc, bad) in enumerate(paths_claims):
        if bad is False:
            continue
        neg = z3.And(*pc) if pc else z3.BoolVal(True)
        if bad is not True:
            neg = z3.And(neg, bad)
        r = ksmt.decide(assumptions, neg, timeout_s, variables)
        queries += 1
        total += r["s"]
        notes.append("path%d: z3=%s cvc5=%s %.1fs" % (i, r["z3"], r.get("cvc5"), r["s"]))
        if r["result"] == "cex":
            return {"verdict": "REFUTED", "queries": queries, "cpu_s": round(total, 2), "cex_args": r["model"], "message": "; ".join(notes), "refute_kind": "SMT_SAT"}
        if r["result"] != "holds":
            unknown.append("path%d:%s" % (i, r["result"]))
    if unknown:
        return {"verdict": "UNKNOWN", "queries": queries, "cpu_s": round(total, 2), "detail": ",".join(unknown) + " | " + "; ".join(notes)}
    return {"verdict": "CONFIRMED", "queries": queries, "cpu_s": round(total, 2), "detail": "; ".join(notes)}


def _guard(fn):
    def run():
        from engine import ksmt

        try:
            return fn()
        except ksmt.AnchorMissing as e:
            return {"verdict": "NOT-ENCODED", "detail": "anchor missing: %s" % e}
        except ksmt.Unsupported as e:
            return {"verdict": "NOT-ENCODED", "detail": "kernel uses a construct outside the KSMT subset: %s" % e}
        except AttributeError as e:  # a private helper the slicer starts from was renamed or removed
            return {"verdict": "NOT-ENCODED", "detail": "anchor missing: %s" % e}

    return run


# ----------------------------------------------------------------------------- C07
def _erase_shrink_kernel():
    """statements of the `if doShrink is True:` block of IntervalTier.eraseRegion up to and
    including one iteration of `for interval in newTier.entries:`"""
    from engine import ksmt

    fdef = ksmt.func_ast(IntervalTier.eraseRegion)
    blk = None
    for n in ast.walk(fdef):
        if isinstance(n, ast.If) and ast.unparse(n.test).replace(" ", "") in ("doShrinkisTrue", "doShrink"):
            blk = n
    if blk is None:
        raise ksmt.AnchorMissing("`if doShrink is True:` block in IntervalTier.eraseRegion")
    loop = ksmt.find_for(blk, "newTier.entries")
    pre = []
    for st in blk.body:
        if st is loop:
            break
        pre.append(st)
    return pre, loop


def _c07_paths(x_is_end):
    import z3
    from engine import ksmt

    pre, loop = _erase_shrink_kernel()
    start, end, x, y = [z3.FP(n, ksmt.F64) for n in ("start", "end", "x", "y")]
    ix = end if x_is_end else x

    def make_env():
        return {"start": start, "end": end, "Interval": lambda a, b, c: ksmt.Rec(["start", "end", "label"], start=a, end=b, label=c), loop.target.id: ksmt.Rec(["start", "end", "label"], start=ix, end=y, label="L")}

    paths = ksmt.explore(pre + loop.body, make_env)
    return paths, dict(start=start, end=end, x=x, y=y)


def c07_pin():
    """An interval beginning exactly at the region's end begins exactly at its start after
    shrinking (so the two pieces of a straddling interval re-join and never overlap)."""
    import z3
    from engine import ksmt

    paths, v = _c07_paths(True)
    start, end, y = v["start"], v["end"], v["y"]
    assume = [z3.fpLEQ(ksmt.fpv(2.0 ** -20), start), z3.fpLT(start, end), z3.fpLT(end, y), z3.fpLEQ(y, ksmt.fpv(TWO20))]
    claims = []
    for pc, env, oc in paths:
        lst = env.get("newEntryList")
        if oc[0] == "raise" or not isinstance(lst, list) or len(lst) != 1:
            claims.append((pc, True))
        else:
            claims.append((pc, z3.Not(z3.fpEQ(ksmt.to_fp(lst[0][0]), start))))
    return _solve(claims, {"start": start, "end": end, "y": y}, assume, 120)


def c07_pin_replay(start, end, y):
    s0 = start / 2
    t = IntervalTier("t", [Interval(s0, y, "x")], 0.0, y)
    r = t.eraseRegion(start, end, "truncate", True)
    es = r.entries
    if len(es) != 1:
        return "straddling interval came back as %d intervals" % len(es)
    if es[0][0] != s0 or es[0][2] != "x":
        return "joined interval wrong"
    return True


def c07_order():
    """No interval that began at or after the region's end starts before the erase point."""
    import z3
    from engine import ksmt

    paths, v = _c07_paths(False)
    start, end, x, y = v["start"], v["end"], v["x"], v["y"]
    assume = [z3.fpLEQ(ksmt.fpv(2.0 ** -20), start), z3.fpLT(start, end), z3.fpLEQ(end, x), z3.fpLT(x, y), z3.fpLEQ(y, ksmt.fpv(TWO20))]
    claims = []
    for pc, env, oc in paths:
        lst = env.get("newEntryList")
        if oc[0] == "raise" or not isinstance(lst, list) or len(lst) != 1:
            claims.append((pc, True))
        else:
            claims.append((pc, z3.fpLT(ksmt.to_fp(lst[0][0]), start)))
    return _solve(claims, v, assume, 120)


def c07_order_replay(start, end, x, y):
    t = IntervalTier("t", [Interval(start / 2, start, "a"), Interval(x, y, "b")], 0.0, y)
    r = t.eraseRegion(start, end, "truncate", True)
    es = r.entries
    if len(es) != 2 or es[1][0] < start or es[0] != Interval(start / 2, start, "a"):
        return "shifted interval starts before the erase point"
    return True


def c07_nocollapse():
    """Bounded: timestamps <= 2^20 and interval length >= 2^-10 -> the shifted interval keeps
    start < end (no TextgridStateError from rounding)."""
    import z3
    from engine import ksmt

    paths, v = _c07_paths(False)
    start, end, x, y = v["start"], v["end"], v["x"], v["y"]
    assume = [z3.fpLEQ(ksmt.fpv(0.0), start), z3.fpLT(start, end), z3.fpLEQ(end, x), z3.fpLT(x, y), z3.fpLEQ(y, ksmt.fpv(TWO20)), z3.fpGEQ(z3.fpSub(ksmt.RNE, y, x), ksmt.fpv(2.0 ** -10))]
    claims = []
    for pc, env, oc in paths:
        lst = env.get("newEntryList")
        if oc[0] == "raise" or not isinstance(lst, list) or len(lst) != 1:
            claims.append((pc, True))
        else:
            claims.append((pc, z3.Not(z3.fpLT(ksmt.to_fp(lst[0][0]), ksmt.to_fp(lst[0][1])))))
    return _solve(claims, v, assume, 300)


def c07_nocollapse_replay(start, end, x, y):
    t = IntervalTier("t", [Interval(x, y, "b")], 0.0, y)
    r = t.eraseRegion(start, end, "truncate", True)
    return True if len(r.entries) == 1 else "interval lost"


def c07_obligations(tier):
    fn = ["praatio.data_classes.interval_tier.IntervalTier.eraseRegion (doShrink block, sliced from the AST)"]
    b = "binary64, RNE; timestamps in [2^-20, 2^20]"
    obs = [
        Ob("fp-erase-pin", F("start", "end", "y"), c07_pin_replay, kind="smt", smt=_guard(c07_pin), timeout=400, funcs=fn, bounds=b),
        Ob("fp-erase-order", F("start", "end", "x", "y"), c07_order_replay, kind="smt", smt=_guard(c07_order), timeout=400, funcs=fn, bounds=b),
    ]
    if tier == "thorough":
        obs.append(Ob("fp-erase-nocollapse", F("start", "end", "x", "y"), c07_nocollapse_replay, kind="smt", smt=_guard(c07_nocollapse), timeout=1300, funcs=fn, bounds=b + "; interval length >= 2^-10"))
    return obs


def c12_span_agrees():
    """Textgrid.eraseRegion's new maxTimestamp and the new maxTimestamp of its tiers are the
    same binary64 number (otherwise validate() is False after shrinking)"""
    import z3
    from engine import ksmt
    from praatio.data_classes.textgrid import Textgrid
    from praatio.data_classes.point_tier import PointTier

    start, end, M = [z3.FP(n, ksmt.F64) for n in ("start", "end", "M")]
    # textgrid side: statements of Textgrid.eraseRegion before the result object is built
    fdef = ksmt.func_ast(Textgrid.eraseRegion)
    stmts = []
    for st in fdef.body:
        if isinstance(st, ast.Assign) and "Textgrid(" in ast.unparse(st.value):
            break
        stmts.append(st)
    if not stmts:
        raise ksmt.AnchorMissing("statements before `newTG = Textgrid(...)` in Textgrid.eraseRegion")

    def env_tg():
        return {"start": start, "end": end, "doShrink": True, "self": ksmt.Rec(["minTimestamp", "maxTimestamp"], minTimestamp=0.0, maxTimestamp=M), "errors": errors}

    tg_paths = [(pc, env) for pc, env, oc in ksmt.explore(stmts, env_tg) if oc[0] == "fall"]
    # tier side: `diff = ...` and `newMax = ...` of the doShrink blocks
    outs = []
    for cls in (IntervalTier, PointTier):
        f = ksmt.func_ast(cls.eraseRegion)
        blk = None
        for n in ast.walk(f):
            if isinstance(n, ast.If) and ast.unparse(n.test).replace(" ", "") in ("doShrinkisTrue", "doShrink"):
                blk = n
        if blk is None:
            raise ksmt.AnchorMissing("doShrink block in %s.eraseRegion" % cls.__name__)
        # straight-line assignments of the block to plain names whose right-hand side is
        # arithmetic over names/attributes (diff = end - start, newMax = ... - diff, whatever they are called)
        def _arith(e):
            return all(isinstance(x, (ast.BinOp, ast.UnaryOp, ast.Name, ast.Attribute, ast.Constant, ast.operator, ast.unaryop, ast.expr_context)) for x in ast.walk(e))

        asg = [st for st in blk.body if isinstance(st, ast.Assign) and len(st.targets) == 1 and isinstance(st.targets[0], ast.Name) and _arith(st.value)]
        asg.sort(key=lambda st: st.lineno)

        def env_t():
            return {"start": start, "end": end, "newTier": ksmt.Rec(["maxTimestamp"], maxTimestamp=M), "self": ksmt.Rec(["maxTimestamp"], maxTimestamp=M)}

        for pc, env, oc in ksmt.explore(asg, env_t):
            if "newMax" not in env:
                raise ksmt.AnchorMissing("newMax in %s.eraseRegion" % cls.__name__)
            outs.append((cls.__name__, pc, env["newMax"]))
    assume = [z3.fpLEQ(ksmt.fpv(0.0), start), z3.fpLT(start, end), z3.fpLEQ(end, M), z3.fpLEQ(M, ksmt.fpv(TWO20))]
    claims = []
    for pc, env in tg_paths:
        if "maxTimestamp" not in env:
            raise ksmt.AnchorMissing("`maxTimestamp` computed before `newTG = Textgrid(...)` in Textgrid.eraseRegion")
        for name, pc2, nm in outs:
            claims.append((pc + pc2, z3.Not(z3.fpEQ(ksmt.to_fp(env["maxTimestamp"]), ksmt.to_fp(nm)))))
    return _solve(claims, {"start": start, "end": end, "M": M}, assume, 120)


def c12_span_replay(start, end, M):
    from praatio.data_classes.textgrid import Textgrid
    from praatio.data_classes.point_tier import PointTier

    tg = Textgrid(0.0, M)
    tg.addTier(IntervalTier("i", [], 0.0, M))
    tg.addTier(PointTier("p", [], 0.0, M))
    r = tg.eraseRegion(start, end, True)
    for t in r.tiers:
        if t.maxTimestamp != r.maxTimestamp:
            return "tier span %r differs from the textgrid span %r after shrinking" % (t.maxTimestamp, r.maxTimestamp)
    return True if r.validate("silence") else "validate() is False"


def c12_obligations(tier):
    return [Ob("fp-tgerase-span-agrees", F("start", "end", "M"), c12_span_replay, kind="smt", smt=_guard(c12_span_agrees), timeout=400,
               funcs=["Textgrid.eraseRegion / IntervalTier.eraseRegion / PointTier.eraseRegion (span arithmetic sliced from the AST)"], bounds="binary64, 0 <= start < end <= M <= 2^20")]


# ----------------------------------------------------------------------------- C08
def _unroll(loop, names):
    """loop body repeated once per name, with the loop target bound to that name first"""
    out = []
    for nm in names:
        out.append(ast.Assign(targets=[ast.Name(id=loop.target.id, ctx=ast.Store())], value=ast.Name(id=nm, ctx=ast.Load()), lineno=0, col_offset=0))
        out.extend(loop.body)
    return out


def _c08_paths(mode):
    import z3
    from engine import ksmt
    from praatio.utilities import constants as pconst

    fdef = ksmt.func_ast(IntervalTier.insertSpace)
    loop = ksmt.find_for(fdef, "self.entries")
    pre = []
    for st in fdef.body:
        if st is loop:
            break
        if isinstance(st, ast.Assign):
            pre.append(st)
    s0, e0, e1, start, d = [z3.FP(n, ksmt.F64) for n in ("s0", "e0", "e1", "start", "d")]
    mk = lambda a, b, c: ksmt.Rec(["start", "end", "label"], start=a, end=b, label=c)  # noqa

    def make_env():
        return {"start": start, "duration": d, "collisionMode": mode, "constants": pconst, "errors": errors, "Interval": mk, "__i0": mk(s0, e0, "x"), "__i1": mk(e0, e1, "y")}

    paths = ksmt.explore(pre + _unroll(loop, ["__i0", "__i1"]), make_env)
    return paths, dict(s0=s0, e0=e0, e1=e1, start=start, d=d)


def _c08_assume(v, minlen=None):
    import z3
    from engine import ksmt

    a = [z3.fpLEQ(ksmt.fpv(0.0), v["s0"]), z3.fpLT(v["s0"], v["start"]), z3.fpLT(v["start"], v["e0"]), z3.fpLT(v["e0"], v["e1"]), z3.fpLEQ(v["e1"], ksmt.fpv(TWO20)), z3.fpLEQ(ksmt.fpv(2.0 ** -20), v["d"]), z3.fpLEQ(v["d"], ksmt.fpv(TWO20))]
    if minlen is not None:
        for lo, hi in (("s0", "start"), ("start", "e0"), ("e0", "e1")):
            a.append(z3.fpGEQ(z3.fpSub(ksmt.RNE, v[hi], v[lo]), ksmt.fpv(minlen)))
    return a


def c08_adjacent(mode):
    def run():
        import z3
        from engine import ksmt

        paths, v = _c08_paths(mode)
        want = 3 if mode == "split" else 2
        claims = []
        for pc, env, oc in paths:
            lst = env.get("newEntryList")
            if oc[0] == "raise" or not isinstance(lst, list) or len(lst) != want:
                claims.append((pc, True))
            else:
                a, b = lst[-2], lst[-1]
                claims.append((pc, z3.Not(z3.fpEQ(ksmt.to_fp(a[1]), ksmt.to_fp(b[0])))))
        return _solve(claims, v, _c08_assume(v), 120)

    return run


def c08_adjacent_replay(mode):
    def body(s0, e0, e1, start, d):
        t = IntervalTier("t", [Interval(s0, e0, "x"), Interval(e0, e1, "y")], 0.0, e1)
        r = t.insertSpace(start, d, mode)
        es = r.entries
        if len(es) != (3 if mode == "split" else 2):
            return "count"
        if es[-2][1] != es[-1][0]:
            return "adjacent intervals no longer adjacent"
        return True

    return body


def c08_nocollapse(mode):
    def run():
        import z3
        from engine import ksmt

        paths, v = _c08_paths(mode)
        claims = []
        for pc, env, oc in paths:
            lst = env.get("newEntryList")
            if oc[0] == "raise" or not isinstance(lst, list):
                claims.append((pc, True))
                continue
            bad = []
            for it in lst:
                bad.append(z3.Not(z3.fpLT(ksmt.to_fp(it[0]), ksmt.to_fp(it[1]))))
            for a, b in zip(lst, lst[1:]):
                bad.append(z3.fpGT(ksmt.to_fp(a[1]), ksmt.to_fp(b[0])))
            claims.append((pc, z3.Or(*bad)))
        return _solve(claims, v, _c08_assume(v, 2.0 ** -10), 300)

    return run


def c08_nocollapse_replay(mode):
    def body(s0, e0, e1, start, d):
        t = IntervalTier("t", [Interval(s0, e0, "x"), Interval(e0, e1, "y")], 0.0, e1)
        t.insertSpace(start, d, mode)
        return True

    return body


def c08_obligations(tier):
    fn = ["praatio.data_classes.interval_tier.IntervalTier.insertSpace (loop body sliced from the AST, unrolled over two adjacent intervals)"]
    b = "binary64, RNE; 0<=s0<start<e0<e1<=2^20, 2^-20<=d<=2^20"
    P = F("s0", "e0", "e1", "start", "d")
    obs = [
        Ob("fp-space-adjacent-split", P, c08_adjacent_replay("split"), kind="smt", smt=_guard(c08_adjacent("split")), timeout=400, funcs=fn, bounds=b),
        Ob("fp-space-adjacent-stretch", P, c08_adjacent_replay("stretch"), kind="smt", smt=_guard(c08_adjacent("stretch")), timeout=400, funcs=fn, bounds=b),
    ]
    if tier == "thorough":
        for m in ("split", "stretch"):
            obs.append(Ob("fp-space-nocollapse-" + m, P, c08_nocollapse_replay(m), kind="smt", smt=_guard(c08_nocollapse(m)), timeout=1300, funcs=fn, bounds=b + "; lengths >= 2^-10"))
    return obs


# ----------------------------------------------------------------------------- C06
def c06_rebase():
    """the rebasing block of IntervalTier.crop (`if rebaseToZero is True:` ... up to the span
    assignment) on two abutting kept intervals: every timestamp is the single rounded
    difference x - cropStart, so the shared boundary stays one value"""
    import z3
    from engine import ksmt

    fdef = ksmt.func_ast(IntervalTier.crop)
    blk = None
    for n in ast.walk(fdef):
        if isinstance(n, ast.If) and ast.unparse(n.test).replace(" ", "") in ("rebaseToZeroisTrue", "rebaseToZero"):
            blk = n
    if blk is None:
        raise ksmt.AnchorMissing("`if rebaseToZero is True:` block in IntervalTier.crop")
    a, b, s0, e0, e1 = [z3.FP(n, ksmt.F64) for n in ("a", "b", "s0", "e0", "e1")]
    mk = lambda x, y, z: (x, y, z)  # noqa

    def make_env():
        env = dict(IntervalTier.crop.__globals__)
        env.update({"cropStart": a, "cropEnd": b, "Interval": mk, "newEntryList": [mk(s0, e0, "x"), mk(e0, e1, "y")], "len": len})
        return env

    assume = [z3.fpLEQ(ksmt.fpv(0.0), a), z3.fpLEQ(a, s0), z3.fpLT(s0, e0), z3.fpLT(e0, e1), z3.fpLEQ(e1, b), z3.fpLEQ(b, ksmt.fpv(TWO20))]
    sub = lambda x: z3.fpSub(ksmt.RNE, x, a)  # noqa
    claims = []
    for pc, env, oc in ksmt.explore(blk.body, make_env):
        lst = env.get("newEntryList")
        if oc[0] != "fall" or not isinstance(lst, list) or len(lst) != 2 or "maxT" not in env:
            claims.append((pc, True))
            continue
        got = [ksmt.to_fp(lst[0][0]), ksmt.to_fp(lst[0][1]), ksmt.to_fp(lst[1][0]), ksmt.to_fp(lst[1][1]), ksmt.to_fp(env["maxT"])]
        want = [sub(s0), sub(e0), sub(e0), sub(e1), z3.fpSub(ksmt.RNE, b, a)]
        claims.append((pc, z3.Or(*[z3.Not(z3.fpEQ(g, w)) for g, w in zip(got, want)])))
    return _solve(claims, dict(a=a, b=b, s0=s0, e0=e0, e1=e1), assume, 120)


def c06_rebase_replay(a, b, s0, e0, e1):
    t = IntervalTier("t", [Interval(s0, e0, "x"), Interval(e0, e1, "y")], 0.0, b)
    r = t.crop(a, b, "truncated", True)
    es = r.entries
    if len(es) != 2:
        return "entry count"
    if es[0][1] != es[1][0]:
        return "the shared boundary of two abutting intervals was split by rebasing"
    if (es[0][0], es[0][1], es[1][1]) != (s0 - a, e0 - a, e1 - a):
        return "a timestamp is not x - cropStart"
    if (r.minTimestamp, r.maxTimestamp) != (0.0, b - a):
        return "span is not [0, b-a]"
    return True


def c06_obligations(tier):
    fn = ["praatio.data_classes.interval_tier.IntervalTier.crop (rebasing block, translated from the AST)"]
    return [Ob("fp-crop-rebase-shared-boundary", F("a", "b", "s0", "e0", "e1"), c06_rebase_replay, kind="smt", smt=_guard(c06_rebase), timeout=400, funcs=fn, bounds="two abutting intervals inside the window, all binary64 values in [0, 2^20]")]


# ----------------------------------------------------------------------------- C09
class _Reporter:
    def __init__(self):
        self.calls = []

    def __call__(self, exc, text):
        self.calls.append(exc)


def c09_span_test(which):
    """checkIsOvershoot / checkIsUndershoot on all binary64 pairs: the answer is the exact
    comparison and the reporter is called (with OutOfBounds) iff the time leaves the span"""

    def run():
        import z3
        from engine import ksmt
        from praatio.utilities import utils

        fn = utils.checkIsOvershoot if which == "over" else utils.checkIsUndershoot
        fdef = ksmt.func_ast(fn)
        t, ref = z3.FP("t", ksmt.F64), z3.FP("ref", ksmt.F64)
        names = [a.arg for a in fdef.args.args]

        def make_env():
            env = dict(fn.__globals__)
            env.update({names[0]: t, names[1]: ref, names[2]: _Reporter()})
            return env

        body = [st for st in fdef.body if not (isinstance(st, ast.Expr) and isinstance(st.value, ast.Constant))]
        exact = z3.fpGT(t, ref) if which == "over" else z3.fpLT(t, ref)
        finite = [z3.Not(z3.fpIsNaN(v)) for v in (t, ref)] + [z3.Not(z3.fpIsInf(v)) for v in (t, ref)]
        claims = []
        for pc, env, oc in ksmt.explore(body, make_env):
            calls = env[names[2]].calls
            if oc[0] != "return" or not isinstance(oc[1], bool) or len(calls) != (1 if oc[1] else 0) or any(c is not errors.OutOfBounds for c in calls):
                claims.append((pc, True))  # any input reaching this path breaks the contract
                continue
            claims.append((pc, z3.Xor(exact, z3.BoolVal(oc[1]))))
        return _solve(claims, {"t": t, "ref": ref}, finite, 120)

    return run


def c09_span_replay(which):
    def body(t, ref):
        from praatio.utilities import utils

        rep = _Reporter()
        fn = utils.checkIsOvershoot if which == "over" else utils.checkIsUndershoot
        r = fn(t, ref, rep)
        want = (t > ref) if which == "over" else (t < ref)
        if r != want:
            return "%s(%r, %r) = %r: not the exact comparison" % (fn.__name__, t, ref, r)
        if len(rep.calls) != (1 if want else 0) or any(c is not errors.OutOfBounds for c in rep.calls):
            return "reporter not called exactly when the time leaves the span"
        return True

    return body


def c09_obligations(tier):
    fn = ["praatio.utilities.utils.checkIsOvershoot/checkIsUndershoot (translated from the AST)"]
    return [Ob("fp-span-test-%s" % w, F("t", "ref"), c09_span_replay(w), kind="smt", smt=_guard(c09_span_test(w)), timeout=300, funcs=fn, bounds="all finite binary64 pairs (t, reference)") for w in ("over", "under")]


# ----------------------------------------------------------------------------- C14
def c14_point_edge():
    """one iteration of the loop of PointTier.dejitter with a one-point reference: a point whose
    distance |t - r| (as the subtraction computes it) is at most maxDifference is moved onto r,
    one further than 2 maxDifference stays"""
    import z3
    from engine import ksmt
    from praatio.data_classes.point_tier import PointTier

    fdef = ksmt.func_ast(PointTier.dejitter)
    loop = ksmt.find_for(fdef, "self.entries")
    pre = []
    for st in fdef.body:
        if st is loop:
            break
        if isinstance(st, ast.Assign):
            pre.append(st)
    t, r, D = [z3.FP(n, ksmt.F64) for n in ("t", "r", "D")]
    params = [a.arg for a in fdef.args.args]

    def make_env():
        env = dict(PointTier.dejitter.__globals__)
        env.update({params[0]: ksmt.Rec(["entries"], entries=[(t, "q")]), params[1]: ksmt.Rec(["timestamps"], timestamps=[r]), params[2]: D, "Point": (lambda a, b: (a, b)), "abs": abs, "min": min})
        return env

    lo, hi = ksmt.fpv(0.0), ksmt.fpv(TWO20)
    assume = [z3.fpLEQ(lo, t), z3.fpLEQ(t, hi), z3.fpLEQ(lo, r), z3.fpLEQ(r, hi), z3.fpLT(lo, D), z3.fpLEQ(D, hi)]
    d = z3.fpAbs(z3.fpSub(ksmt.RNE, t, r))
    inside = z3.fpLEQ(d, D)
    outside = z3.fpGT(d, z3.fpMul(ksmt.RNE, ksmt.fpv(2.0), D))
    claims = []
    for pc, env, oc in ksmt.explore(pre + [loop], make_env):
        lst = [v for k, v in env.items() if isinstance(v, list) and k not in (params[0], params[1]) and len(v) == 1 and isinstance(v[0], (tuple, list)) and len(v[0]) == 2]
        if oc[0] != "fall" or len(lst) != 1:
            claims.append((pc, True))
            continue
        g = ksmt.to_fp(lst[0][0][0])
        claims.append((pc, z3.Or(z3.And(inside, z3.Not(z3.fpEQ(g, r))), z3.And(outside, z3.Not(z3.fpEQ(g, t))))))
    return _solve(claims, dict(t=t, r=r, D=D), assume, 200)


def c14_point_edge_replay(t, r, D):
    from praatio.data_classes.point_tier import PointTier
    from praatio.utilities.constants import Point

    hi = max(t, r)
    g = PointTier("p", [Point(t, "q")], 0.0, hi).dejitter(PointTier("ref", [Point(r, "m")], 0.0, hi), D).entries[0][0]
    d = abs(t - r)
    if d <= D and g != r:
        return "point %r is %r <= maxDifference %r from the reference %r but was not moved" % (t, d, D, r)
    if d > 2 * D and g != t:
        return "a point further than 2 maxDifference from the reference was moved"
    return True


def c14_obligations(tier):
    fn = ["praatio.data_classes.point_tier.PointTier.dejitter (loop body, translated from the AST) + my_math.lessThanOrEqual/isclose"]
    return [Ob("fp-dejitter-point-edge", F("t", "r", "D"), c14_point_edge_replay, kind="smt", smt=_guard(c14_point_edge), timeout=900, funcs=fn, bounds="one point, one reference point, all binary64 values in [0, 2^20], maxDifference in (0, 2^20]")]


# ----------------------------------------------------------------------------- C16
def c16_index(rate, width):
    def run():
        import z3
        from engine import ksmt
        from praatio import audio

        helper = getattr(audio.Wav, "_getIndexAtTime", None)
        if helper is None:  # private helper renamed: the one-argument private method of Wav that getFrames calls
            import inspect

            src = inspect.getsource(audio.Wav.getFrames)
            cands = [f for n, f in vars(audio.Wav).items() if n.startswith("_") and not n.startswith("__") and callable(f) and ("self.%s(" % n) in src and len(inspect.signature(f).parameters) == 2]
            if len(cands) != 1:
                raise ksmt.AnchorMissing("the time -> byte index helper of Wav (was _getIndexAtTime)")
            helper = cands[0]
        fdef = ksmt.func_ast(helper)
        t = z3.FP("t", ksmt.F64)

        def make_env():
            return {"startTime": t, "self": ksmt.Rec(["frameRate", "sampleWidth"], frameRate=rate, sampleWidth=width)}

        # the whole body (docstring skipped), so that named intermediates are followed
        body = [st for st in fdef.body if not (isinstance(st, ast.Expr) and isinstance(st.value, ast.Constant))]
        paths = ksmt.explore(body, make_env)
        assume = [z3.fpLEQ(ksmt.fpv(0.0), t), z3.fpLEQ(t, ksmt.fpv(TWO20))]
        claims = []
        prod = z3.fpMul(ksmt.RNE, t, ksmt.fpv(rate))
        for pc, env, oc in paths:
            if oc[0] != "return":
                claims.append((pc, True))
                continue
            idx = ksmt.to_fp(oc[1])
            q = z3.fpDiv(ksmt.RNE, idx, ksmt.fpv(width))  # exact: idx < 2^53, width a power of two
            whole = z3.fpEQ(q, z3.fpRoundToIntegral(z3.RTZ(), q))
            near = z3.fpLEQ(z3.fpAbs(z3.fpSub(ksmt.RNE, q, prod)), ksmt.fpv(0.5))
            claims.append((pc, z3.Not(z3.And(whole, near))))
        return _solve(claims, {"t": t}, assume, 120)

    return run


def c16_index_replay(rate, width):
    def body(t):
        import struct

        from praatio import audio

        n = 8
        frames = struct.pack("<" + {1: "b", 2: "h", 4: "i"}[width] * n, *range(1, n + 1))
        w = audio.Wav(frames, [1, width, rate, n, "NONE", "not compressed"])
        i = w._getIndexAtTime(t)
        if i % width != 0:
            return "byte index %d is not a whole number of samples" % i
        if abs(i / width - t * rate) > 0.5:
            return "not the nearest sample"
        return True

    return body


def c16_obligations(tier):
    fn = ["praatio.audio.Wav._getIndexAtTime (return expression translated from the AST)"]
    combos = [(16000, 2), (44100, 4), (8000, 1)] if tier == "quick" else [(r, w) for r in (8000, 16000, 22050, 44100, 48000, 65536) for w in (1, 2, 4)]
    return [
        Ob("fp-index-r%d-w%d" % (r, w), F("t"), c16_index_replay(r, w), kind="smt", smt=_guard(c16_index(r, w)), timeout=400, funcs=fn, bounds="binary64 t in [0,2^20], rate %d, width %d" % (r, w))
        for r, w in combos
    ]
