"""Pieces shared by the I/O properties C01 and C03: kernels of the long-format reader
sliced from the current AST, keyword-looking labels (known finding region), concrete
file-level round trips."""
import ast
import inspect
import os
import shutil
import tempfile
import textwrap

from engine.hlib import *  # noqa

from praatio import textgrid as tgapi
from praatio.data_classes.interval_tier import IntervalTier
from praatio.data_classes.point_tier import PointTier
from praatio.data_classes.textgrid import Textgrid, _tgToDictionary
from praatio.utilities import textgrid_io, errors
from praatio.utilities.constants import Interval, Point

ALPHA = '"a \n=1]é'


# ------------------------------------------------------------------ long reader kernels
def long_reader_kernels():
    """(interval_kernel, point_kernel, name_kernel) sliced from _parseNormalTextgrid:
    the bodies of the two `for element in tierData:` loops as functions element -> entries,
    and the statements that extract the tier name from the tier header as header -> name."""
    func = textgrid_io._parseNormalTextgrid
    fdef = ast.parse(textwrap.dedent(inspect.getsource(func))).body[0]
    loops = [n for n in ast.walk(fdef) if isinstance(n, ast.For) and isinstance(n.iter, ast.Name) and n.iter.id == "tierData" and isinstance(n.target, ast.Name)]
    if len(loops) != 2:
        raise AssertionError("anchor missing: two `for element in tierData:` loops in _parseNormalTextgrid (found %d)" % len(loops))
    kernels = []
    for i, node in enumerate(loops):
        body = "\n".join(ast.unparse(st) for st in node.body)
        code = "def kernel(%s):\n    entries = []\n%s\n    return entries\n" % (node.target.id, textwrap.indent(body, "    "))
        ns = {}
        exec(compile(code, "<slice %d of _parseNormalTextgrid>" % i, "exec"), func.__globals__, ns)
        kernels.append(ns["kernel"])
    # label-only slices: the statements of each loop body that assign `label`
    label_kernels = []
    for i, node in enumerate(loops):
        stmts = [st for st in node.body if isinstance(st, ast.Assign) and any(isinstance(t, ast.Name) and t.id == "label" for t in st.targets)]
        if not stmts:
            raise AssertionError("anchor missing: assignments to `label` in the element loops of _parseNormalTextgrid")
        code = "def kernel(%s):\n%s\n    return label\n" % (node.target.id, textwrap.indent("\n".join(ast.unparse(st) for st in stmts), "    "))
        ns = {}
        exec(compile(code, "<label slice %d of _parseNormalTextgrid>" % i, "exec"), func.__globals__, ns)
        label_kernels.append(ns["kernel"])
    # which is which: the interval loop creates Interval(...)
    srcs = [ast.unparse(l) for l in loops]
    ik = kernels[0] if "Interval(" in srcs[0] else kernels[1]
    pk = kernels[1] if ik is kernels[0] else kernels[0]
    # tier name: every top-level statement of the tier loop that assigns tierName
    name_stmts = [st for st in ast.walk(fdef) if isinstance(st, ast.Assign) and any(isinstance(t, ast.Name) and t.id == "tierName" for t in st.targets)]
    if not name_stmts:
        raise AssertionError("anchor missing: assignment(s) to tierName in _parseNormalTextgrid")
    code = "def name_kernel(header):\n%s\n    return tierName\n" % textwrap.indent("\n".join(ast.unparse(st) for st in name_stmts), "    ")
    ns = {}
    exec(compile(code, "<tierName slice of _parseNormalTextgrid>", "exec"), func.__globals__, ns)
    il = label_kernels[0] if ik is kernels[0] else label_kernels[1]
    pl = label_kernels[1] if ik is kernels[0] else label_kernels[0]
    long_reader_kernels.label_kernels = (il, pl)
    return ik, pk, ns["name_kernel"]


def long_writer_kernels():
    """(header_kernel(tier, tierNum), interval_kernel(entry, num), point_kernel(entry, num))
    sliced from _tgToLongTextForm: the tier loop body up to the entry loops, and the bodies of
    the two entry loops; each returns the text it appends"""
    func = textgrid_io._tgToLongTextForm
    fdef = ast.parse(textwrap.dedent(inspect.getsource(func))).body[0]
    tier_loop = None
    for n in ast.walk(fdef):
        if isinstance(n, ast.For) and "tiers" in ast.unparse(n.iter) and "enumerate" in ast.unparse(n.iter):
            tier_loop = n
    if tier_loop is None:
        raise AssertionError("anchor missing: `for tierNum, tier in enumerate(tg['tiers'])` in _tgToLongTextForm")
    tnames = [e.id for e in tier_loop.target.elts]
    head = []
    for st in tier_loop.body:
        if isinstance(st, ast.If):
            break
        head.append(st)
    inner = [n for n in ast.walk(tier_loop) if isinstance(n, ast.For) and n is not tier_loop and "enumerate" in ast.unparse(n.iter)]
    if len(inner) != 2:
        raise AssertionError("anchor missing: two entry loops in _tgToLongTextForm")
    g = dict(func.__globals__, tab=" " * 4)

    def mk(params, stmts, tag):
        code = "def k(%s):\n    outputTxt = \"\"\n%s\n    return outputTxt\n" % (", ".join(params), textwrap.indent("\n".join(ast.unparse(st) for st in stmts), "    "))
        ns = {}
        exec(compile(code, "<%s slice of _tgToLongTextForm>" % tag, "exec"), g, ns)
        return ns["k"]

    hk = mk(tnames, head, "tier header")
    ks = []
    for lp in inner:
        names = [e.id for e in lp.target.elts]
        ks.append((ast.unparse(lp), mk(names, lp.body, "entry")))
    ik = [k for src, k in ks if "intervals" in src][0]
    pk = [k for src, k in ks if "points" in src][0]
    return hk, ik, pk


def mk_dict(lab_i="x", lab_p="y", name="w", times=(0.0, 1.0, 0.25, 0.5, 0.75), only=None):
    lo, hi, a, b, p = times
    tg = Textgrid(lo, hi)
    if only in (None, "interval"):
        tg.addTier(IntervalTier(name, [Interval(a, b, lab_i)], lo, hi))
    if only in (None, "point"):
        tg.addTier(PointTier(name if only == "point" else "pts", [Point(p, lab_p)], lo, hi))
    return _tgToDictionary(tg)


# --------------------------------------------------------------------- keyword labels
KEYWORDS = ["item [2]:", "intervals [1]:", "points [1]:", '"IntervalTier"', '"TextTier"', 'class = "IntervalTier"', "ooTextFile short", 'text = "x"', 'x"', '""', "a\n\nb", "5e-05", "<exists>", 'name = "q"', "xmin = 3", "size = 0", "é 中", "tiers? <exists>"]
FORMATS = ["short_textgrid", "long_textgrid", "json", "textgrid_json"]
WHERE = ["ilabel", "plabel", "name"]
KF_ID = "KF-C03-keyword-looking-labels"


def in_kf_region(kw, where, fmt):
    """labels/names containing the structural markers the text readers search for"""
    if fmt == "long_textgrid":
        if "item [" in kw or "ooTextFile short" in kw:
            return True
        if "intervals [" in kw and where in ("ilabel", "name"):
            return True
        if "points [" in kw and where == "plabel":
            return True
    if fmt == "short_textgrid":
        if '"IntervalTier"' in kw or '"TextTier"' in kw or "item [" in kw:
            return True
    return False


def file_roundtrip(kw, where, fmt, blanks=False, incl=True):
    """save to a real file, open it again; True or a failure tag"""
    d = tempfile.mkdtemp(prefix="verif_io_")
    try:
        tg = Textgrid(0, 1)
        nm = kw.replace("\n", " ").strip() if where == "name" else "t"
        tg.addTier(IntervalTier(nm, [Interval(0.25, 0.5, kw if where == "ilabel" else "x")], 0, 1))
        tg.addTier(PointTier("p", [Point(0.5, kw if where == "plabel" else "y")], 0, 1))
        fn = os.path.join(d, "f.TextGrid")
        tg.save(fn, fmt, blanks, reportingMode="silence")
        r = tgapi.openTextgrid(fn, incl, reportingMode="silence")
        if list(r.tierNames) != list(tg.tierNames):
            return "tier names"
        for t, u in zip(tg.tiers, r.tiers):
            want = [tuple(e) for e in t.entries]
            have = [tuple(e) for e in u.entries]
            if blanks:
                have = [h for h in have if h[-1] != ""]
            if want != have or type(t) is not type(u):
                return "entries"
            if (t.minTimestamp, t.maxTimestamp) != (u.minTimestamp, u.maxTimestamp):
                return "tier span"
        if (r.minTimestamp, r.maxTimestamp) != (tg.minTimestamp, tg.maxTimestamp):
            return "span"
        first = open(fn, encoding="utf-8").read()
        fn2 = os.path.join(d, "g.TextGrid")
        if incl:
            r.save(fn2, fmt, blanks, reportingMode="silence")
            if open(fn2, encoding="utf-8").read() != first:
                return "re-saving does not reproduce the first file"
        return True
    finally:
        shutil.rmtree(d, ignore_errors=True)


def ob_keywords_pass(pid):
    def check(i, w, f):
        return file_roundtrip(KEYWORDS[i], WHERE[w], FORMATS[f])

    def run():
        n = 0
        for i in range(len(KEYWORDS)):
            for w in range(3):
                for f in range(4):
                    if in_kf_region(KEYWORDS[i], WHERE[w], FORMATS[f]):
                        continue
                    n += 1
                    try:
                        r = check(i, w, f)
                    except Exception as e:  # noqa
                        r = "exception " + type(e).__name__
                    if r is not True:
                        return {"verdict": "REFUTED", "queries": n, "cex_args": {"i": i, "w": w, "f": f}, "message": "%r as %s in %s: %s" % (KEYWORDS[i], WHERE[w], FORMATS[f], r), "refute_kind": "CONCRETE"}
        return {"verdict": "CONFIRMED", "queries": n, "detail": "concrete cross-check: %d keyword-looking label/name cases round-trip through real files" % n}

    return Ob("keywords-roundtrip-concrete", I("i", "w", "f"), check, kind="smt", smt=run, timeout=300, funcs=["Textgrid.save / textgrid.openTextgrid (real files in a scratch directory)"], bounds="concrete cross-check: labels/names %r x 3 positions x 4 formats outside the known-finding region" % KEYWORDS)


def obs_keywords_kf():
    """one region obligation per (marker keyword, format): expected to fail on the current
    tree (known finding); CONFIRMED once the readers tokenise instead of searching"""
    out = []
    for i, kw in enumerate(KEYWORDS):
        for f, fmt in enumerate(FORMATS):
            ws = [w for w in range(3) if in_kf_region(kw, WHERE[w], fmt)]
            if not ws:
                continue

            def check(w, i=i, f=f):
                return file_roundtrip(KEYWORDS[i], WHERE[w], FORMATS[f])

            def run(i=i, f=f, ws=ws, check=check):
                n = 0
                for w in ws:
                    n += 1
                    try:
                        r = check(w)
                    except Exception as e:  # noqa
                        r = "exception " + type(e).__name__
                    if r is not True:
                        return {"verdict": "REFUTED", "queries": n, "cex_args": {"w": w}, "message": "%r as %s in %s: %s" % (KEYWORDS[i], WHERE[w], FORMATS[f], r), "refute_kind": "CONCRETE"}
                return {"verdict": "CONFIRMED", "queries": n, "detail": "region of the known finding no longer fails"}

            out.append(Ob("keywords-region-%s-k%d" % (fmt.split("_")[0], i), I("w"), check, kind="smt", smt=run, timeout=120, known=KF_ID, funcs=["textgrid_io._parseNormalTextgrid / _parseShortTextgrid / parseTextgridStr"], bounds="known-finding region: %r in %s" % (kw, fmt)))
    return out
