"""Number-token obligations shared by C01, C02 and C03.

* numToStr (KSMT-fp): the value denoted by the written token is the timestamp itself, or an
  integer within 1e-14 (relative) of it.  repr() and '%d' are C-level: they are modelled by
  their contracts (repr round-trips exactly; '%d' truncates toward zero).
* reader regexes (RX): every token the writer can emit (contract language of repr / %d) and
  every number of the TextGrid text format is matched, in the position the writer puts it,
  by the corresponding numeric pattern of _parseNormalTextgrid, and strToIntOrFloat sends it
  to float() unless it is a plain integer.  Witnesses are replayed through the real reader.
"""
import ast

from engine.hlib import *  # noqa

from praatio.utilities import my_math, textgrid_io, utils, errors

FN = ["praatio.utilities.my_math.numToStr/isclose (translated from the AST)", "praatio.utilities.textgrid_io._parseNormalTextgrid (numeric patterns extracted from the AST)", "praatio.utilities.utils.strToIntOrFloat"]


def _numtostr_smt():
    import z3
    from engine import ksmt
    from harness.fp_kernels import _solve

    fdef = ksmt.func_ast(my_math.numToStr)
    x = z3.FP("x", ksmt.F64)

    def make_env():
        env = dict(my_math.numToStr.__globals__)
        env[fdef.args.args[0].arg] = x
        return env

    paths = ksmt.explore(fdef.body, make_env)
    assume = [z3.fpLEQ(ksmt.fpv(0.0), x), z3.fpLEQ(x, ksmt.fpv(1e16))]
    claims = []
    for pc, env, oc in paths:
        if oc[0] != "return" or not isinstance(oc[1], ksmt.Fmt):
            claims.append((pc, True))
            continue
        f = oc[1]
        if f.template == "%s" and isinstance(f.args[0], ksmt.Fmt) and f.args[0].template == "repr" and f.args[0].args[0] is x:
            claims.append((pc, False))  # repr(x): float(repr(x)) == x by Python's contract
        elif f.template == "repr" and f.args[0] is x:
            claims.append((pc, False))
        elif f.template == "%d" and len(f.args) == 1 and f.args[0] is x:
            n = z3.fpRoundToIntegral(z3.RTZ(), x)  # '%d' % x truncates toward zero
            diff = z3.fpAbs(z3.fpSub(ksmt.RNE, x, n))
            # x >= 0 and n = trunc(x) <= x, so max(|x|, |n|) = |x|
            tol = z3.fpMul(ksmt.RNE, ksmt.fpv(1e-14), z3.fpAbs(x))
            claims.append((pc, z3.Not(z3.fpLEQ(diff, tol))))
        else:
            claims.append((pc, True))
    return _solve(claims, {"x": x}, assume, 120)


def _numtostr_replay(x):
    tok = my_math.numToStr(x)
    v = float(tok)
    if v == x:
        return True
    if v == int(v) and abs(x - v) <= 1e-14 * max(abs(x), abs(v)):
        return True
    return "numToStr(%r) = %r denotes %r" % (x, tok, v)


def ob_numtostr():
    from harness.fp_kernels import _guard

    return Ob("num-numToStr-fp", F("x"), _numtostr_replay, kind="smt", smt=_guard(_numtostr_smt), timeout=400, funcs=FN[:1], bounds="all binary64 x in [0, 1e16]")


# ------------------------------------------------------------------------------ RX
def numeric_patterns():
    """(key, pattern) for every numeric pattern the real _parseNormalTextgrid hands to
    reSearch, recorded while it parses a concrete long-format sample (so patterns built
    from constants or concatenation are seen as the regex engine sees them)"""
    seen = []
    orig = textgrid_io.reSearch

    def rec(pattern, string, flags=None):
        if pattern not in seen:
            seen.append(pattern)
        return orig(pattern, string, flags)

    textgrid_io.reSearch = rec
    try:
        textgrid_io._parseNormalTextgrid(_long_text("1", "xmin"))
    finally:
        textgrid_io.reSearch = orig
    pats = []
    for p in seen:
        if "\\d" in p or "0-9" in p:
            key = p.split(" ")[0].split("?")[0]
            pats.append((key, p))
    if len(pats) < 3:
        raise AssertionError("anchor missing: numeric reSearch patterns of _parseNormalTextgrid (found %r)" % (seen,))
    return pats


LANGS = {"writer": "repr(float) and %d tokens (what numToStr can emit)", "spec": "numbers of the TextGrid text format (plain and exponent notation)"}


def _lang(name):
    import z3
    from engine import rxq

    return z3.Union(rxq.REPR_FLOAT, rxq.PCT_D) if name == "writer" else rxq.SPEC_NUMBER


def _regex_smt(lang, key, pattern):
    def run():
        import z3
        from engine import rxq

        try:
            full = rxq.re_to_z3(pattern)
            grp = rxq.re_to_z3(rxq.capture_group(pattern, 1))
        except rxq.RxUnsupported as e:
            return {"verdict": "NOT-ENCODED", "detail": "pattern outside the RX subset: %s" % e}
        L = _lang(lang)
        q = 0
        tot = 0.0
        # (1) the token is in the capture group's language.  For the writer language the
        # contract grammar over-approximates what repr() really emits, so witnesses that
        # Python would never write (repr(float(w)) != w) are excluded and the query repeated
        excluded = []
        while True:
            r, w, dt = rxq.find_outside(L, grp, maxlen=10, extra=(lambda s: z3.And(*[s != z3.StringVal(e) for e in excluded])) if excluded else None)
            q += 1
            tot += dt
            if r == "witness" and lang == "writer" and not _genuine(w) and len(excluded) < 40:
                excluded.append(w)
                continue
            break
        if r == "witness":
            if lang == "writer" and not _genuine(w):
                return {"verdict": "UNKNOWN", "queries": q, "cpu_s": round(tot, 2), "detail": "only witnesses outside the real repr() output found (%d excluded)" % len(excluded)}
            return {"verdict": "REFUTED", "queries": q, "cpu_s": round(tot, 2), "cex_args": {"tok": w}, "message": "token %r is outside the capture group of %r" % (w, pattern), "refute_kind": "SMT_SAT"}
        if r == "unknown":
            return {"verdict": "UNKNOWN", "queries": q, "cpu_s": round(tot, 2), "detail": "z3 unknown on group inclusion"}
        # (2) the line as written ("key = tok ") matches the whole pattern
        s = z3.String("s")
        sol = z3.Solver()
        sol.set("timeout", 60000)
        line = z3.Concat(z3.StringVal(key + " = "), s, z3.StringVal(" "))
        sol.add(z3.InRe(s, L), z3.Length(s) <= 10, z3.Not(z3.InRe(line, full)))
        import time

        t0 = time.time()
        rr = str(sol.check())
        tot += time.time() - t0
        q += 1
        if rr == "sat":
            w = sol.model()[s].as_string()
            return {"verdict": "REFUTED", "queries": q, "cpu_s": round(tot, 2), "cex_args": {"tok": w}, "message": "line %r does not match %r" % (key + " = " + w + " ", pattern), "refute_kind": "SMT_SAT"}
        if rr != "unsat":
            return {"verdict": "UNKNOWN", "queries": q, "cpu_s": round(tot, 2), "detail": "z3 unknown on line match"}
        return {"verdict": "CONFIRMED", "queries": q, "cpu_s": round(tot, 2), "detail": "z3 seq: %s tokens (<= 10 chars) all in group and line language of %r" % (lang, pattern)}

    return run


def _genuine(w):
    """is w a token numToStr really emits for some non-negative double?"""
    try:
        x = float(w)
    except ValueError:
        return False
    return my_math.numToStr(x) == w or repr(x) == w


def _long_text(tok, where):
    """a long-format TextGrid whose only unusual number is `tok`, in the position `where`"""
    t = {"xmin": "0", "xmax": "20000000000000000", "tiers": [
        {"class": "IntervalTier", "name": "i", "xmin": "0", "xmax": "20000000000000000", "entries": [("0", "20000000000000000", "x")]},
        {"class": "TextTier", "name": "p", "xmin": "0", "xmax": "20000000000000000", "entries": [("0", "y")]}]}
    if where == "xmin":
        t["tiers"][0]["xmin"] = tok
    elif where == "xmax":
        t["tiers"][0]["xmax"] = tok
    elif where == "number":
        t["tiers"][1]["entries"] = [(tok, "y")]
    from oracle import spec_io

    return spec_io.write_textgrid(t, "long")


def _regex_replay(key):
    def body(tok):
        txt = _long_text(tok, key)
        try:
            d = textgrid_io.parseTextgridStr(txt, True)
        except Exception as e:  # noqa
            return "reader raised %s for number token %r" % (type(e).__name__, tok)
        got = {"xmin": d["tiers"][0]["xmin"], "xmax": d["tiers"][0]["xmax"], "number": d["tiers"][1]["entries"][0][0]}[key]
        return True if float(got) == float(tok) else "token %r read as %r" % (tok, got)

    return body


def obs_regex(lang):
    out = []
    seen = set()
    for key, pat in numeric_patterns():
        if key in seen or key not in ("xmin", "xmax", "number"):
            continue
        seen.add(key)
        out.append(Ob("num-regex-%s-%s" % (lang, key), S("tok"), _regex_replay(key), kind="smt", smt=_regex_smt(lang, key, pat), timeout=300, funcs=FN[1:2], bounds="%s, length <= 10; pattern %r" % (LANGS[lang], pat)))
    return out


def _discriminator_z3(s):
    """z3 translation of the boolean that sends a token to float() in strToIntOrFloat,
    from the current AST (forms: "c" in inputStr, "c" in inputStr.lower(), and/or/not)"""
    import inspect
    import textwrap

    import z3

    fdef = ast.parse(textwrap.dedent(inspect.getsource(utils.strToIntOrFloat))).body[0]
    arg = fdef.args.args[0].arg
    env = {}

    def lower(e):
        # only ASCII letters matter for number tokens
        return e  # handled by testing both cases below

    def tr(n):
        if isinstance(n, ast.BoolOp):
            parts = [tr(v) for v in n.values]
            return z3.Or(*parts) if isinstance(n.op, ast.Or) else z3.And(*parts)
        if isinstance(n, ast.UnaryOp) and isinstance(n.op, ast.Not):
            return z3.Not(tr(n.operand))
        if isinstance(n, ast.Name) and n.id in env:
            return env[n.id]
        if isinstance(n, ast.Compare) and len(n.ops) == 1 and isinstance(n.ops[0], ast.In) and isinstance(n.left, ast.Constant):
            c = n.left.value
            rhs = n.comparators[0]
            if isinstance(rhs, ast.Name) and rhs.id == arg:
                return z3.Contains(s, z3.StringVal(c))
            if isinstance(rhs, ast.Call) and isinstance(rhs.func, ast.Attribute) and rhs.func.attr == "lower" and isinstance(rhs.func.value, ast.Name) and rhs.func.value.id == arg:
                return z3.Or(z3.Contains(s, z3.StringVal(c)), z3.Contains(s, z3.StringVal(c.upper())))
        raise AssertionError("strToIntOrFloat: construct outside the translated subset: " + ast.unparse(n))

    ret = None
    for st in fdef.body:
        if isinstance(st, ast.Assign) and len(st.targets) == 1 and isinstance(st.targets[0], ast.Name):
            env[st.targets[0].id] = tr(st.value)
        elif isinstance(st, ast.Return):
            ret = st.value
    if not isinstance(ret, ast.IfExp):
        raise AssertionError("anchor missing: `return float(x) if <cond> else int(x)` in strToIntOrFloat")
    return tr(ret.test)


def _strtoint_smt(lang):
    def run():
        import z3
        from engine import rxq

        L = _lang(lang)
        digits = z3.Plus(z3.Range("0", "9"))
        try:
            r, w, dt = rxq.find_with(L, lambda s: z3.And(z3.Not(_discriminator_z3(s)), z3.Not(z3.InRe(s, digits))), maxlen=10)
        except AssertionError as e:
            return {"verdict": "NOT-ENCODED", "detail": str(e)}
        if r == "witness":
            return {"verdict": "REFUTED", "queries": 1, "cpu_s": round(dt, 2), "cex_args": {"tok": w}, "message": "token %r would be handed to int()" % w, "refute_kind": "SMT_SAT"}
        if r == "unknown":
            return {"verdict": "UNKNOWN", "queries": 1, "cpu_s": round(dt, 2), "detail": "z3 unknown"}
        return {"verdict": "CONFIRMED", "queries": 1, "cpu_s": round(dt, 2), "detail": "every %s token that is not all digits is sent to float()" % lang}

    return run


def _strtoint_replay(tok):
    try:
        v = utils.strToIntOrFloat(tok)
    except Exception as e:  # noqa
        return "strToIntOrFloat(%r) raised %s" % (tok, type(e).__name__)
    return True if v == float(tok) else "strToIntOrFloat(%r) = %r" % (tok, v)


TOKENS = ["0", "7", "123456", "0.5", "7.25", "123456.789", "1e-05", "5e-05", "2e-08", "1e-17", "1.5e-05", "1e+16", "1e+100", "1.7976931348623157e+308", "5e-324", "3E5", "2.5E-3", "1E+2", "0.30000000000000004", "2.9999999999999996", "1000000000000000", "00012", "12.", ".5"]


def ob_strtoint_concrete():
    """concrete companion (not a solver verdict; it does not depend on the shape of the code):
    number tokens of every written shape denote the same value after strToIntOrFloat"""

    def check(i):
        tok = TOKENS[i]
        try:
            v = utils.strToIntOrFloat(tok)
        except Exception as e:  # noqa
            return "strToIntOrFloat(%r) raised %s" % (tok, type(e).__name__)
        return True if v == float(tok) else "strToIntOrFloat(%r) = %r" % (tok, v)

    def run():
        for i in range(len(TOKENS)):
            r = check(i)
            if r is not True:
                return {"verdict": "REFUTED", "queries": i + 1, "cex_args": {"i": i}, "message": str(r), "refute_kind": "CONCRETE"}
        return {"verdict": "CONFIRMED", "queries": len(TOKENS), "detail": "concrete cross-check"}

    return Ob("num-strToIntOrFloat-concrete", I("i"), check, kind="smt", smt=run, timeout=60, funcs=FN[2:3], bounds="concrete cross-check: %d tokens (integers, decimals, exponent notation with and without '.', upper-case E)" % len(TOKENS))


def ob_strtoint(lang):
    return Ob("num-strToIntOrFloat-%s" % lang, S("tok"), _strtoint_replay, kind="smt", smt=_strtoint_smt(lang), timeout=300, funcs=FN[2:3], bounds="%s, length <= 10" % LANGS[lang])


def contract_check():
    """the token languages really contain what Python emits (10^4 seeded doubles)"""
    import random
    import re

    rnd = random.Random(7)
    rx = re.compile(r"^(\d+\.\d+|\d(\.\d+)?e[-+]\d{2,3})$")
    for _ in range(10000):
        e = rnd.uniform(-20, 16)
        x = 10 ** e * rnd.uniform(1, 10)
        if not rx.match(repr(x)) or float(repr(x)) != x:
            return "repr contract violated for %r" % x
        n = rnd.randrange(0, 10 ** 15)
        if "%d" % float(n) != str(n):
            return "%%d contract violated for %r" % n
    return True


def ob_contract():
    def run():
        r = contract_check()
        return {"verdict": "CONFIRMED", "queries": 1, "detail": "repr/%d contracts hold on 10^4 seeded doubles (validation of the token languages, not a solver verdict)"} if r is True else {"verdict": "ERROR", "detail": r}

    return Ob("num-contract-validation", [], lambda: True, kind="smt", smt=run, timeout=60, funcs=["repr(float), '%d' (contracts)"], bounds="10^4 seeded doubles")
