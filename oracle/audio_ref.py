"""List-of-samples reference model for praatio.audio (C16-C18), plus an arithmetic model of
little-endian two's-complement packing that stands in for the C-level `struct` module."""


def nearest(x, n):
    """nearest integer to x in 0..n, ties to even (Python's round for floats), written as
    comparisons so that it runs symbolically"""
    for k in range(n + 1):
        if x < k + 0.5:
            return k
        if x == k + 0.5:
            return k if k % 2 == 0 else k + 1
    return n + 1


class ListWav:
    def __init__(self, samples, rate):
        self.s = list(samples)
        self.rate = rate

    def idx(self, t):
        return nearest(t * self.rate, len(self.s) + 2)

    def get(self, a, b):
        i, j = self.idx(a), self.idx(b)
        return self.s[i:j]

    def delete(self, a, b):
        i, j = self.idx(a), self.idx(b)
        self.s = self.s[:i] + self.s[j:]

    def insert(self, a, xs):
        i = self.idx(a)
        self.s = self.s[:i] + list(xs) + self.s[i:]

    def duration(self):
        return len(self.s) / self.rate


CODES = {"b": 1, "h": 2, "i": 4, "q": 8}


class FakeStruct:
    """struct.pack / struct.unpack for formats '<' + code*count (and a bare code), on tuples
    of ints 0..255 instead of bytes objects.  Documented contract of the struct module for
    signed little-endian integers; raises like struct.error when a value is out of range."""

    error = ValueError

    @staticmethod
    def _parse(fmt):
        if fmt.startswith("<"):
            fmt = fmt[1:]
        if not fmt:
            return None, 0
        code = fmt[0]
        if any(c != code for c in fmt) or code not in CODES:
            raise ValueError("unsupported format " + fmt)
        return code, len(fmt)

    @staticmethod
    def pack(fmt, *vals):
        code, cnt = FakeStruct._parse(fmt)
        if cnt != len(vals):
            raise ValueError("pack expected %d items" % cnt)
        out = []
        if cnt == 0:
            return tuple(out)
        w = CODES[code]
        lim = 1 << (8 * w - 1)
        for v in vals:
            if not (-lim <= v < lim):
                raise ValueError("argument out of range")
            u = v if v >= 0 else v + 2 * lim
            for _ in range(w):
                out.append(u % 256)
                u = u // 256
        return tuple(out)

    @staticmethod
    def unpack(fmt, data):
        code, cnt = FakeStruct._parse(fmt)
        if cnt == 0:
            if len(data) != 0:
                raise ValueError("unpack requires a buffer of 0 bytes")
            return ()
        w = CODES[code]
        if len(data) != w * cnt:
            raise ValueError("unpack requires a buffer of %d bytes" % (w * cnt))
        lim = 1 << (8 * w - 1)
        out = []
        for k in range(cnt):
            u = 0
            for b in reversed(data[k * w:(k + 1) * w]):
                u = u * 256 + b
            out.append(u - 2 * lim if u >= lim else u)
        return tuple(out)
