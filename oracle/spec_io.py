"""Independent reader and writer for Praat TextGrid text files, written from Praat's
"TextGrid file formats" manual page, not from praatio:

  A text file is a sequence of free-standing values.  A value is a number, a "string" in
  double quotes (a double quote inside a string is written twice) or a <flag>.  Anything
  else - xmin, =, item [1]:, intervals: - is a comment.  A number only counts when it is
  free-standing: preceded by white space (or the start) and followed by white space (or
  the end).  The long ("normal") and the short layout contain the SAME sequence of values:
     "ooTextFile" "TextGrid" xmin xmax <exists> ntiers
     then per tier: "IntervalTier"|"TextTier" name xmin xmax nentries
     then per interval: xmin xmax text   /  per point: number mark

The reader is a plain character scanner (no regexes, no % formatting) so that it also runs
under symbolic execution.  Numbers are returned as their token text.
"""
WS = " \t\n\r"
DIGITS = "0123456789"


def is_number(w):
    i, n = 0, len(w)
    if n == 0:
        return False
    if w[i] in "+-":
        i += 1
    d0 = i
    while i < n and w[i] in DIGITS:
        i += 1
    if i == d0:
        return False
    if i < n and w[i] == ".":
        i += 1
        f0 = i
        while i < n and w[i] in DIGITS:
            i += 1
        if i == f0:
            return False
    if i < n and w[i] in "eE":
        i += 1
        if i < n and w[i] in "+-":
            i += 1
        e0 = i
        while i < n and w[i] in DIGITS:
            i += 1
        if i == e0:
            return False
    return i == n


def read_string(text, i):
    """text[i] is the opening quote; returns (value, index just after the closing quote)"""
    n = len(text)
    j = i + 1
    buf = ""
    while True:
        if j >= n:
            raise ValueError("unterminated string")
        if text[j] == '"':
            if j + 1 < n and text[j + 1] == '"':
                buf = buf + '"'
                j += 2
                continue
            break
        buf = buf + text[j]
        j += 1
    return buf, j + 1


def scan(text):
    """-> list of ('s', str) | ('n', token) | ('f', flag)"""
    out = []
    i, n = 0, len(text)
    while i < n:
        c = text[i]
        if c in WS:
            i += 1
            continue
        if c == '"':
            v, i = read_string(text, i)
            out.append(("s", v))
            continue
        j = i
        while j < n and text[j] not in WS:
            j += 1
        w = text[i:j]
        if is_number(w):
            out.append(("n", w))
        elif len(w) >= 2 and w[0] == "<" and w[-1] == ">":
            out.append(("f", w))
        i = j
    return out


def read_textgrid(text):
    """-> {'xmin': tok, 'xmax': tok, 'tiers': [{'class','name','xmin','xmax','entries'}]}
    raises ValueError when the value sequence is not a TextGrid (incl. a declared size that
    differs from the number of items that follow)."""
    t = scan(text)
    p = [0]

    def take(kind):
        if p[0] >= len(t) or t[p[0]][0] != kind:
            raise ValueError("expected %s at value %d" % (kind, p[0]))
        v = t[p[0]][1]
        p[0] += 1
        return v

    if take("s") != "ooTextFile" or take("s") != "TextGrid":
        raise ValueError("not a TextGrid text file")
    xmin, xmax = take("n"), take("n")
    if take("f") != "<exists>":
        raise ValueError("tiers? flag")
    ntiers = int(take("n"))
    tiers = []
    for _ in range(ntiers):
        cls = take("s")
        if cls not in ("IntervalTier", "TextTier"):
            raise ValueError("tier class " + cls)
        name = take("s")
        tmin, tmax = take("n"), take("n")
        cnt = int(take("n"))
        ents = []
        for _ in range(cnt):
            if cls == "IntervalTier":
                ents.append((take("n"), take("n"), take("s")))
            else:
                ents.append((take("n"), take("s")))
        tiers.append({"class": cls, "name": name, "xmin": tmin, "xmax": tmax, "entries": ents})
    if p[0] != len(t):
        raise ValueError("values left over after the last declared item")
    return {"xmin": xmin, "xmax": xmax, "tiers": tiers}


def q(s):
    return '"' + s.replace('"', '""') + '"'


def write_textgrid(tg, layout="long", nl="\n"):
    """tg as returned by read_textgrid (numbers are token strings).
    layout: 'long' (Praat), 'short' (Praat), 'elan' (long layout as written by ELAN:
    `item[1]:` without blank, `intervals [1]` without colon, some trailing blanks absent)."""
    L = []
    if layout == "short":
        L += ['File type = "ooTextFile"', 'Object class = "TextGrid"', "", tg["xmin"], tg["xmax"], "<exists>", str(len(tg["tiers"]))]
        for tier in tg["tiers"]:
            L += [q(tier["class"]), q(tier["name"]), tier["xmin"], tier["xmax"], str(len(tier["entries"]))]
            for e in tier["entries"]:
                L += list(e[:-1]) + [q(e[-1])]
        return nl.join(L) + nl
    elan = layout == "elan"
    L += ['File type = "ooTextFile"', 'Object class = "TextGrid"', ""]
    L += ["xmin = " + tg["xmin"] + ("" if elan else " "), "xmax = " + tg["xmax"] + ("" if elan else " "), "tiers? <exists> ", "size = %d " % len(tg["tiers"]), "item []: "]
    for ti, tier in enumerate(tg["tiers"]):
        L.append("    item%s[%d]:" % ("" if elan else " ", ti + 1))
        L.append('        class = %s ' % q(tier["class"]))
        L.append('        name = %s ' % q(tier["name"]))
        L.append("        xmin = " + tier["xmin"] + ("" if elan else " "))
        L.append("        xmax = " + tier["xmax"] + " ")
        word = "intervals" if tier["class"] == "IntervalTier" else "points"
        L.append("        %s: size = %d " % (word, len(tier["entries"])))
        for ei, e in enumerate(tier["entries"]):
            L.append("        %s [%d]%s" % (word, ei + 1, "" if elan else ":"))
            if tier["class"] == "IntervalTier":
                L.append("            xmin = " + e[0] + " ")
                L.append("            xmax = " + e[1] + " ")
                L.append("            text = " + q(e[2]) + " ")
            else:
                L.append("            number = " + e[0] + " ")
                L.append("            mark = " + q(e[1]) + " ")
    return nl.join(L) + nl
