"""Reference models of the tier operations, written from the property statements
(properties.jsonl C05-C14) -- plain loops over tuples, no praatio imports.

Interval entries are (start, end, label) tuples, point entries (time, label) tuples;
a tier is (entries, lo, hi).
"""


# ----------------------------------------------------------------------------- C06 crop
def crop_intervals(entries, a, b, mode):
    out = []
    for (s, e, l) in entries:
        if e <= a or s >= b:  # no overlap of positive length
            continue
        if mode == "strict":
            if s >= a and e <= b:
                out.append((s, e, l))
        elif mode == "lax":
            out.append((s, e, l))
        else:  # truncated
            out.append((s if s > a else a, e if e < b else b, l))
    return out


def crop_interval_tier(entries, a, b, mode, rebase):
    kept = crop_intervals(entries, a, b, mode)
    if not rebase:
        lo, hi = a, b
        shift = 0
    else:
        shift = a
        if kept and kept[0][0] < a:
            shift = kept[0][0]
        kept = [(s - shift, e - shift, l) for (s, e, l) in kept]
        lo, hi = 0.0, b - a
    # lax mode: widen just enough
    if kept:
        if kept[0][0] < lo:
            lo = kept[0][0]
        if kept[-1][1] > hi:
            hi = kept[-1][1]
    return kept, lo, hi


def crop_point_tier(entries, a, b, rebase):
    kept = [(t, l) for (t, l) in entries if a <= t and t <= b]
    if rebase:
        return [(t - a, l) for (t, l) in kept], 0.0, b - a
    return kept, a, b


# ---------------------------------------------------------------------- C07 eraseRegion
def overlaps(s, e, a, b):
    return not (e <= a or s >= b)


def erase_intervals(entries, lo, hi, a, b, mode, shrink):
    """returns ('error',) or (entries, lo, hi)"""
    hit = [x for x in entries if overlaps(x[0], x[1], a, b)]
    if hit and mode == "error":
        return ("error",)
    out = []
    for (s, e, l) in entries:
        if not overlaps(s, e, a, b):
            out.append((s, e, l))
        elif mode == "truncate":
            if s < a:
                out.append((s, a, l))
            if e > b:
                out.append((b, e, l))
        # categorical: dropped
    if not shrink:
        return out, lo, hi
    d = b - a
    res = []
    for (s, e, l) in out:
        if e <= a:
            res.append((s, e, l))
        else:  # s >= b
            res.append((s - d, e - d, l))
    # an interval that straddled the region comes out as one interval
    joined = []
    for x in res:
        if joined and joined[-1][1] == a and x[0] == a and joined[-1][2] == x[2] and \
                _was_straddler(entries, a, b, x[2]):
            joined[-1] = (joined[-1][0], x[1], x[2])
        else:
            joined.append(x)
    return joined, lo, hi - d


def _was_straddler(entries, a, b, label):
    for (s, e, l) in entries:
        if s < a and e > b and l == label:
            return True
    return False


def erase_points(entries, lo, hi, a, b, shrink):
    out = [(t, l) for (t, l) in entries if not (a <= t and t <= b)]
    if not shrink:
        return out, lo, hi
    d = b - a
    return [(t, l) if t < a else (t - d, l) for (t, l) in out], lo, hi - d


# ---------------------------------------------------------------------- C08 insertSpace
def insert_space_intervals(entries, lo, hi, s0, d, mode):
    out = []
    for (s, e, l) in entries:
        if e <= s0:
            out.append((s, e, l))
        elif s >= s0:
            out.append((s + d, e + d, l))
        else:  # straddles
            if mode == "stretch":
                out.append((s, e + d, l))
            elif mode == "split":
                out.append((s, s0, l))
                out.append((s0 + d, e + d, l))
            elif mode == "no_change":
                out.append((s, e, l))
            else:
                return ("error",)
    return out, lo, hi + d


def insert_space_points(entries, lo, hi, s0, d):
    return [(t, l) if t <= s0 else (t + d, l) for (t, l) in entries], lo, hi + d


# ------------------------------------------------------------------- C09 editTimestamps
def shift_intervals(entries, lo, hi, off):
    out = []
    left = False
    for (s, e, l) in entries:
        ns, ne = s + off, e + off
        if ns < lo or ne > hi:
            left = True
        if ne <= 0:
            continue
        if ns < 0:
            ns = 0
        out.append((ns, ne, l))
    nlo, nhi = lo, hi
    if out:
        if out[0][0] < nlo:
            nlo = out[0][0]
        if out[-1][1] > nhi:
            nhi = out[-1][1]
    return out, nlo, nhi, left


def shift_points(entries, lo, hi, off):
    out = []
    left = False
    for (t, l) in entries:
        nt = t + off
        if nt < lo or nt > hi:
            left = True
        if nt < 0:
            continue
        out.append((nt, l))
    nlo, nhi = lo, hi
    if out:
        if out[0][0] < nlo:
            nlo = out[0][0]
        if out[-1][0] > nhi:
            nhi = out[-1][0]
    return out, nlo, nhi, left


# ------------------------------------------------------- C10 labelled-time cell algebra
def labelled(entries, c0, c1):
    """is the elementary cell [c0,c1] covered by an entry?"""
    for x in entries:
        if x[0] <= c0 and c1 <= x[1]:
            return True
    return False


def label_at(entries, c0, c1):
    for x in entries:
        if x[0] <= c0 and c1 <= x[1]:
            return x[2]
    return None


def cells(*bounds):
    pts = sorted(bounds)
    return [(p, q) for p, q in zip(pts, pts[1:]) if p < q]


# ------------------------------------------------------------------ C11 insert / delete
def insert_interval(entries, lo, hi, new, mode):
    """returns ('collision',) or (entries, lo, hi)"""
    (s, e, l) = new
    hit = [x for x in entries if overlaps(x[0], x[1], s, e)]
    if hit and mode == "error":
        return ("collision",)
    rest = [x for x in entries if not overlaps(x[0], x[1], s, e)]
    if not hit or mode == "replace":
        ins = (s, e, l)
    else:  # merge
        grp = sorted(hit + [(s, e, l)])
        ins = (min(x[0] for x in grp), max(x[1] for x in grp), "-".join(x[2] for x in grp))
    out = sorted(rest + [ins])
    return out, min(lo, out[0][0]), max(hi, out[-1][1])


def insert_point(entries, lo, hi, new, mode):
    (t, l) = new
    hit = [x for x in entries if x[0] == t]
    if hit and mode == "error":
        return ("collision",)
    rest = [x for x in entries if x[0] != t]
    if not hit or mode == "replace":
        ins = (t, l)
    else:
        ins = (t, "-".join([hit[0][1], l]))
    out = sorted(rest + [ins])
    return out, min(lo, out[0][0]), max(hi, out[-1][0])
