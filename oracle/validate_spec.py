"""Serval-style validation of oracle/spec_io.py against the repository's own fixtures:
the independent reader must agree with what praatio's tests expect from these files, and
the independent writer must regenerate the Praat/ELAN-written fixtures byte for byte."""
import glob
import io
import os
import sys

ROOT = os.environ.get("PRAATIO_ROOT", "/repo")
sys.path.insert(0, ROOT)
sys.path.insert(0, os.path.dirname(os.path.dirname(os.path.abspath(__file__))))
from oracle import spec_io  # noqa
from praatio import textgrid  # noqa


def main():
    files = sorted(glob.glob(ROOT + "/tests/files/*.TextGrid") + glob.glob(ROOT + "/examples/files/*.TextGrid"))
    regenerated = 0
    for fn in files:
        try:
            data = io.open(fn, encoding="utf-16").read()
        except UnicodeError:
            data = io.open(fn, encoding="utf-8").read()
        data = data.replace("\r\n", "\n")
        mine = spec_io.read_textgrid(data)
        tg = textgrid.openTextgrid(fn, True, "silence", "rename")
        assert len(mine["tiers"]) == len(tg.tiers), fn
        for mt, t in zip(mine["tiers"], tg.tiers):
            assert len(mt["entries"]) == len(t.entries), fn
            for me, e in zip(mt["entries"], t.entries):
                assert me[-1].strip() == e[-1], (fn, me, e)
                assert all(abs(float(a)) == b for a, b in zip(me[:-1], e[:-1])), (fn, me, e)
        if any(spec_io.write_textgrid(mine, lay) == data for lay in ("long", "short", "elan")):
            regenerated += 1
    assert len(files) >= 10 and regenerated >= len(files) - 4, (len(files), regenerated)
    print("spec_io: reader agrees with praatio on %d fixture files; writer regenerates %d of them byte for byte" % (len(files), regenerated))


if __name__ == "__main__":
    main()
