import sys, time, importlib.util, collections, os
sys.path.insert(0, os.environ.get("PRAATIO_ROOT","/repo"))
import crosshair.core_and_libs  # noqa registers plugins
from crosshair.core import analyze_function, run_checkables
from crosshair.options import AnalysisOptionSet
from crosshair.libimpl import builtinslib as bl
from crosshair.util import set_debug

def main():
    path, fname, fmode, tmo = sys.argv[1], sys.argv[2], sys.argv[3], float(sys.argv[4])
    if len(sys.argv) > 5 and sys.argv[5] == "-v":
        set_debug(True)
    if fmode == "ieee":
        bl._PYTYPE_TO_WRAPPER_TYPE[float] = ((bl.PreciseIeeeSymbolicFloat, 1.0),)
    elif fmode in ("real","realx"):
        bl._PYTYPE_TO_WRAPPER_TYPE[float] = ((bl.RealBasedSymbolicFloat, 1.0),)
        if fmode == "realx":
            from crosshair.statespace import StateSpace
            StateSpace.cap_result_at_unknown = lambda self: None
    import math
    from crosshair import core as chcore
    def _isclose(a, b, *, rel_tol=1e-09, abs_tol=0.0):
        # CPython Modules/mathmodule.c:math_isclose_impl, transcribed
        if rel_tol < 0.0 or abs_tol < 0.0:
            raise ValueError("tolerances must be non-negative")
        if a == b:
            return True
        if math.isinf(a) or math.isinf(b):
            return False
        diff = abs(b - a)
        return ((diff <= abs(rel_tol * b)) or (diff <= abs(rel_tol * a))) or (diff <= abs_tol)
    if os.environ.get("NO_ISCLOSE_PATCH") != "1":
        chcore._PATCH_REGISTRATIONS[math.isclose] = _isclose
    import re as _re
    from crosshair.tracers import NoTracing, ResumedTracing
    _orig_pct = chcore._PATCH_REGISTRATIONS[str.__mod__]
    _SPEC = _re.compile(r"%(%|s|d)")
    def _pct(self, other):
        with NoTracing():
            simple = type(self) is str and "%" in self and all(
                m.group(0) in ("%s", "%d", "%%") for m in _re.finditer(r"%.", self))
        if not simple:
            return _orig_pct(self, other)
        args = other if type(other) is tuple else (other,)
        with NoTracing():
            parts = _SPEC.split(self)   # lit, spec, lit, spec, ...
        out = parts[0]
        ai = 0
        for k in range(1, len(parts), 2):
            sp = parts[k]
            if sp == "%":
                out = out + "%"
            else:
                a = args[ai]; ai += 1
                if sp == "d":
                    a = int(a)
                out = out + str(a)
            out = out + parts[k + 1]
        if ai != len(args):
            raise TypeError("not all arguments converted during string formatting")
        return out
    if os.environ.get("NO_PCT_PATCH") != "1":
        chcore._PATCH_REGISTRATIONS[str.__mod__] = _pct
    from crosshair.core import realize as _realize
    _orig_gi = bl.LazyIntSymbolicStr.__getitem__
    def _gi_fix(self, i):
        if isinstance(i, slice) and (i.step is None or i.step == 1):
            n = None
            st, sp = i.start, i.stop
            if (st is not None and st < 0) or (sp is not None and sp < 0):
                n = _realize(len(self))
                if st is not None and st < 0:
                    st = max(0, n + st)
                if sp is not None and sp < 0:
                    sp = max(0, n + sp)
                i = slice(st, sp, i.step)
        return _orig_gi(self, i)
    if os.environ.get("NO_GI_FIX") != "1":
        bl.LazyIntSymbolicStr.__getitem__ = _gi_fix
    from crosshair.core import CrossHairValue
    _orig_format = chcore._PATCH_REGISTRATIONS[format]
    def _has_sym(o, depth=0):
        if isinstance(o, CrossHairValue):
            return True
        if depth < 4 and isinstance(o, (tuple, list)):
            return any(_has_sym(x, depth + 1) for x in o)
        return False
    def _format2(obj, format_spec=""):
        with NoTracing():
            is_str = isinstance(obj, (str, bl.AnySymbolicStr))
            sym = (not is_str) and _has_sym(obj)
        if sym:
            return "<sym>"
        return _orig_format(obj, format_spec)
    if os.environ.get("NO_FMT_PATCH") != "1":
        chcore._PATCH_REGISTRATIONS[format] = _format2
    spec = importlib.util.spec_from_file_location("probe_mod", path)
    mod = importlib.util.module_from_spec(spec); sys.modules["probe_mod"] = mod
    spec.loader.exec_module(mod)
    fn = getattr(mod, fname)
    stats = collections.Counter()
    opts = AnalysisOptionSet(per_condition_timeout=tmo, per_path_timeout=tmo, report_all=True, stats=stats)
    t0 = time.time()
    cks = analyze_function(fn, opts)
    for c in cks:
        c.options.stats = stats
        msgs = list(c.analyze())
        for m in msgs:
            print(m.state, m.message[:600])
    print("stats", dict(stats), "wall %.1fs" % (time.time() - t0))
main()
