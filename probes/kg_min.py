import io, os, tempfile
from praatio import klattgrid
from praatio.klattgrid import _openNormalKlattgrid
def mk(v1="98.5", v2="50", v3="7", t="0.5"):
    return ('File type = "ooTextFile"\nObject class = "KlattGrid"\n\nxmin = 0 \nxmax = 1 \n'
        'pitch? <exists> \nxmin = 0 \nxmax = 1 \npoints: size = 1 \npoints [1]:\n    number = ' + t + ' \n    value = ' + v1 + ' \n'
        'oral_formants? <exists> \nxmin = 0 \nxmax = 1 \nformants: size = 1 \nformants [1]:\n    xmin = 0 \n    xmax = 1 \n    points: size = 1 \n    points [1]:\n        number = ' + t + ' \n        value = ' + v2 + ' \n'
        'bandwidths: size = 1 \nbandwidths [1]:\n    xmin = 0 \n    xmax = 1 \n    points: size = 1 \n    points [1]:\n        number = ' + t + ' \n        value = ' + v3 + ' \n'
        'gain? <exists> \nxmin = 0 \nxmax = 1 \npoints: size = 0 \n')
def dump(kg):
    out = []
    for n in kg.tierNames:
        t = kg.getTier(n)
        if hasattr(t, "tierNameList"):
            for n2 in t.tierNameList:
                for n3 in t.tierDict[n2].tierNameList:
                    out.append((n, n2, n3, t.tierDict[n2].tierDict[n3].entries))
        else:
            out.append((n, t.entries))
    return out
if __name__ == "__main__":
    kg = _openNormalKlattgrid(mk())
    print(dump(kg))
    d = tempfile.mkdtemp(); fn = os.path.join(d, "a.KlattGrid"); kg.save(fn); print(open(fn).read())
    print(dump(klattgrid.openKlattgrid(fn)))
