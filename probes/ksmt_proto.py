import ast, inspect, textwrap, subprocess, tempfile, os, time
import z3
from praatio import audio
F64 = z3.Float64(); RNE = z3.RNE()
def tr(node, env):
    if isinstance(node, ast.Constant):
        return z3.FPVal(float(node.value), F64)
    if isinstance(node, ast.Name):
        return env[node.id]
    if isinstance(node, ast.Attribute):
        return env[ast.unparse(node)]
    if isinstance(node, ast.BinOp):
        a, b = tr(node.left, env), tr(node.right, env)
        op = {ast.Add: z3.fpAdd, ast.Sub: z3.fpSub, ast.Mult: z3.fpMul, ast.Div: z3.fpDiv}[type(node.op)]
        return op(RNE, a, b)
    if isinstance(node, ast.Call) and isinstance(node.func, ast.Name) and node.func.id == "round" and len(node.args) == 1:
        return z3.fpRoundToIntegral(RNE, tr(node.args[0], env))
    raise NotImplementedError(ast.dump(node))
src = textwrap.dedent(inspect.getsource(audio.Wav._getIndexAtTime))
fdef = ast.parse(src).body[0]
ret = [n for n in ast.walk(fdef) if isinstance(n, ast.Return)][0].value
print("kernel:", ast.unparse(ret))
t = z3.FP("t", F64)
for rate, width in [(16000, 2), (44100, 4), (8000, 1)]:
    env = {"startTime": t, "self.frameRate": z3.FPVal(float(rate), F64), "self.sampleWidth": z3.FPVal(float(width), F64)}
    idx = tr(ret, env)
    s = z3.Solver()
    s.add(z3.fpLEQ(z3.FPVal(0.0, F64), t), z3.fpLEQ(t, z3.FPVal(1048576.0, F64)))
    # index not a multiple of width: idx/width not integral  (idx < 2^53 so division by 2/4 exact)
    q = z3.fpDiv(RNE, idx, z3.FPVal(float(width), F64))
    s.add(q != z3.fpRoundToIntegral(z3.RTZ(), q))
    t0 = time.time(); r = s.check(); dt = time.time() - t0
    wit = None
    if r == z3.sat:
        m = s.model(); v = m[t]
        wit = float(eval(str(m.eval(z3.fpToReal(t))).replace("?", ""))) if False else m[t]
    print(rate, width, r, "%.1fs" % dt, wit)
    with tempfile.NamedTemporaryFile("w", suffix=".smt2", delete=False) as f:
        f.write(s.to_smt2()); fn = f.name
    t0 = time.time()
    out = subprocess.run(["cvc5", "--tlimit=60000", fn], capture_output=True, text=True).stdout.strip()
    print("   cvc5:", out, "%.1fs" % (time.time() - t0)); os.unlink(fn)
