from typing import List, Tuple
from praatio.utilities import utils
from praatio.utilities.constants import Interval

def ref_crop(a, b, ivs, mode):
    out = []
    for (s, e, l) in ivs:
        if e <= a or s >= b:
            continue
        if mode == "strict":
            if s >= a and e <= b:
                out.append((s, e, l))
        elif mode == "lax":
            out.append((s, e, l))
        else:
            out.append((max(s, a), min(e, b), l))
    return out

def h_crop(a: float, b: float, s1: float, e1: float, s2: float, e2: float, m: int) -> bool:
    """
    pre: a < b and s1 < e1 and e1 <= s2 and s2 < e2
    pre: 0 <= m <= 2
    post: _
    """
    mode = ["strict", "lax", "truncated"][m]
    ivs = [Interval(s1, e1, "x"), Interval(s2, e2, "y")]
    got = utils.getIntervalsInInterval(a, b, ivs, mode)
    got = [(g.start, g.end, g.label) for g in got]
    return got == ref_crop(a, b, [tuple(i) for i in ivs], mode)
