from praatio.data_classes.interval_tier import IntervalTier
from praatio.utilities.constants import Interval
from praatio.utilities import errors

def h_erase_noexc(a: float, b: float, s1: float, e1: float, s2: float, e2: float, mx: float) -> bool:
    """
    pre: 0 <= s1 < e1 <= s2 < e2 <= mx < 1e6
    pre: 0 <= a < b <= mx
    post: _
    """
    t = IntervalTier("t", [Interval(s1, e1, "x"), Interval(s2, e2, "y")], 0.0, mx)
    try:
        r = t.eraseRegion(a, b, "truncate", True)
    except errors.PraatioException:
        return False
    return True
