from praatio.utilities import textgrid_io
from praatio.utilities.constants import Interval, Point

def _tg(label, cls):
    if cls == "IntervalTier":
        ents = [Interval(0.0, 1.0, label)]
    else:
        ents = [Point(0.5, label)]
    return {"xmin": 0.0, "xmax": 1.0, "tiers": [
        {"class": cls, "name": "t", "xmin": 0.0, "xmax": 1.0, "entries": ents}]}

def h_short_label(label: str) -> bool:
    """
    pre: len(label) <= 3
    pre: label == label.strip() and chr(13) not in label
    post: _
    """
    txt = textgrid_io.getTextgridAsStr(_tg(label, "IntervalTier"), "short_textgrid", False)
    back = textgrid_io.parseTextgridStr(txt, True)
    ents = list(back["tiers"][0]["entries"])
    return len(ents) == 1 and ents[0][2] == label

def h_long_label(label: str) -> bool:
    """
    pre: len(label) <= 3
    pre: label == label.strip() and chr(13) not in label
    post: _
    """
    txt = textgrid_io.getTextgridAsStr(_tg(label, "IntervalTier"), "long_textgrid", False)
    back = textgrid_io.parseTextgridStr(txt, True)
    ents = list(back["tiers"][0]["entries"])
    return len(ents) == 1 and ents[0][2] == label

def h_long_point_label(label: str) -> bool:
    """
    pre: len(label) <= 3
    pre: label == label.strip() and chr(13) not in label
    post: _
    """
    txt = textgrid_io.getTextgridAsStr(_tg(label, "TextTier"), "long_textgrid", False)
    back = textgrid_io.parseTextgridStr(txt, True)
    ents = list(back["tiers"][0]["entries"])
    return len(ents) == 1 and ents[0][1] == label

def h_short_label2(label: str) -> bool:
    """
    pre: len(label) <= 3
    pre: label == label.strip() and chr(13) not in label
    post: _
    """
    txt = textgrid_io._tgToShortTextForm(_tg(label, "IntervalTier"))
    back = textgrid_io._parseShortTextgrid(txt)
    ents = list(back["tiers"][0]["entries"])
    return len(ents) == 1 and ents[0][2] == label

def h_long_label2(label: str) -> bool:
    """
    pre: len(label) <= 3
    pre: label == label.strip() and chr(13) not in label
    post: _
    """
    txt = textgrid_io._tgToLongTextForm(_tg(label, "IntervalTier"))
    back = textgrid_io._parseNormalTextgrid(txt)
    ents = list(back["tiers"][0]["entries"])
    return len(ents) == 1 and ents[0][2] == label
