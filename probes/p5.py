import re
from praatio.utilities import textgrid_io
from praatio.utilities.constants import Interval, Point
from p4 import _tg
ALPH = '"a \n=1'

def h_short_label3(label: str) -> bool:
    """
    pre: len(label) <= 3
    pre: all(c in ALPH for c in label)
    pre: label == label.strip()
    post: _
    """
    txt = textgrid_io._tgToShortTextForm(_tg(label, "IntervalTier"))
    back = textgrid_io._parseShortTextgrid(txt)
    ents = list(back["tiers"][0]["entries"])
    return len(ents) == 1 and ents[0][2] == label

def h_long_elem(label: str) -> bool:
    """
    pre: len(label) <= 3
    pre: all(c in ALPH for c in label)
    pre: label == label.strip()
    post: _
    """
    element = '1]:\n            xmin = 0 \n            xmax = 1 \n            text = "' + label.replace('"', '""') + '" \n'
    got = textgrid_io.reSearch(r"text ?= ?\"(.*)\"\s*$", element, flags=re.MULTILINE | re.DOTALL).groups()[0]
    got = re.sub(r'""', '"', got.strip())
    return got == label
