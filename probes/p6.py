from praatio.utilities import textgrid_io
from p4 import _tg
ALPH = '"a \n=1'
HEAD = 'File type = "ooTextFile"\nObject class = "TextGrid"\n\n0\n1\n<exists>\n1\n"IntervalTier"\n"t"\n0\n1\n1\n0\n1\n'

def h_writer(label: str) -> bool:
    """
    pre: len(label) <= 3
    pre: all(c in ALPH for c in label)
    post: _
    """
    txt = textgrid_io._tgToShortTextForm(_tg(label, "IntervalTier"))
    return txt == HEAD + '"' + label.replace('"', '""') + '"\n'

def h_parser(label: str) -> bool:
    """
    pre: len(label) <= 3
    pre: all(c in ALPH for c in label)
    pre: label == label.strip()
    post: _
    """
    txt = HEAD + '"' + label.replace('"', '""') + '"\n'
    back = textgrid_io._parseShortTextgrid(txt)
    ents = list(back["tiers"][0]["entries"])
    return len(ents) == 1 and ents[0][2] == label

def h_fetch(label: str) -> bool:
    """
    pre: len(label) <= 3
    pre: all(c in ALPH for c in label)
    pre: label == label.strip()
    post: _
    """
    txt = '0\n1\n"' + label.replace('"', '""') + '"\n'
    w, i = textgrid_io._fetchTextRow(txt, 4)
    return w == label and i == len(txt)
