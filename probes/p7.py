ALPH = '"a \n=1'
def mk(label): return '0\n1\n"' + label.replace('"', '""') + '"\n'

def t_index(label: str) -> bool:
    """
    pre: len(label) <= 2
    pre: all(c in ALPH for c in label)
    pre: '"' not in label
    post: _
    """
    txt = mk(label)
    return txt.index('"', 5) == 5 + len(label)

def t_slice(label: str) -> bool:
    """
    pre: len(label) <= 2
    pre: all(c in ALPH for c in label)
    pre: '"' not in label
    post: _
    """
    txt = mk(label)
    e = 5 + len(label) + 1
    w = txt[4:e]
    return w == '"' + label + '"' and w[1:-1] == label

def t_strip(label: str) -> bool:
    """
    pre: len(label) <= 2
    pre: all(c in ALPH for c in label)
    pre: label == label.strip()
    post: _
    """
    w = ('"' + label + '"')[1:-1]
    return w.strip() == label

def t_replace(label: str) -> bool:
    """
    pre: len(label) <= 2
    pre: all(c in ALPH for c in label)
    post: _
    """
    return label.replace('"', '""').replace('""', '"') == label

def t_nlindex(label: str) -> bool:
    """
    pre: len(label) <= 2
    pre: all(c in ALPH for c in label)
    pre: '"' not in label
    post: _
    """
    txt = mk(label)
    e = 5 + len(label) + 1
    return txt.index("\n", e) == e
