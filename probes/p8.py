def t1(label: str) -> bool:
    """
    pre: len(label) <= 2
    post: _
    """
    w = ('"' + label + '"')
    return w[1:-1] == label

def t2(label: str) -> bool:
    """
    pre: len(label) <= 2
    post: _
    """
    w = ('"' + label + '"')
    return w[1:len(w)-1] == label

def t3(label: str) -> bool:
    """
    pre: len(label) <= 2
    post: _
    """
    w = ('"' + label + '"')
    return len(w) == len(label) + 2 and w[0] == '"' and w[-1] == '"'
def t4(label: str) -> bool:
    """
    pre: len(label) <= 2
    post: _
    """
    w = ('"' + label + '"')
    return w == '"' + label + '"'
