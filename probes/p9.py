from slicer import K_INTERVAL, K_POINT
from praatio.utilities import textgrid_io
from p4 import _tg
ALPH = '"a \n=1'
def h_long_sliced(label: str) -> bool:
    """
    pre: len(label) <= 3
    pre: all(c in ALPH for c in label)
    pre: label == label.strip()
    post: _
    """
    txt = textgrid_io._tgToLongTextForm(_tg(label, "IntervalTier"))
    element = txt.split("intervals [", 1)[1]
    ents = K_INTERVAL(element)
    return len(ents) == 1 and ents[0][2] == label and ents[0][0] == "0" and ents[0][1] == "1"
