from praatio import audio

def _wav(n, width, rate):
    samples = tuple(range(1, n + 1))
    frames = audio.convertToBytes(samples, width)
    return audio.Wav(frames, [1, width, rate, n, "NONE", "not compressed"])

def h_index_aligned(t: float, w: int) -> bool:
    """
    pre: 0 <= t <= 8 / 16000
    pre: w == 2
    post: _
    """
    wav = _wav(8, 2, 16000)
    i = wav._getIndexAtTime(t)
    return i % 2 == 0

def h_getframes(t0: float, t1: float) -> bool:
    """
    pre: 0 <= t0 <= t1 <= 0.0005
    post: _
    """
    wav = _wav(8, 2, 16000)
    got = wav.getFrames(t0, t1)
    i, j = round(t0 * 16000), round(t1 * 16000)
    exp = audio.convertToBytes(tuple(range(1, 9))[i:j], 2)
    return got == exp
