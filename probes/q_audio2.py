from praatio import audio
SAMPLES = (11, -12, 13, -14, 15, -16, 17, -18)
def _wav(width=2, rate=8):
    return audio.Wav(audio.convertToBytes(SAMPLES, width), [1, width, rate, len(SAMPLES), "NONE", "not compressed"])

def h_getframes_w1(t0: float, t1: float) -> bool:
    """
    pre: 0 <= t0 <= t1 <= 1
    post: _
    """
    wav = _wav(1, 8)
    got = wav.getFrames(t0, t1)
    i, j = round(t0 * 8), round(t1 * 8)
    return got == audio.convertToBytes(SAMPLES[i:j], 1)

def h_delete_insert_w1(t0: float, t1: float) -> bool:
    """
    pre: 0 <= t0 <= t1 <= 1
    post: _
    """
    wav = _wav(1, 8)
    seg = wav.getFrames(t0, t1)
    wav.deleteSegment(t0, t1)
    i, j = round(t0 * 8), round(t1 * 8)
    if wav.frames != audio.convertToBytes(SAMPLES[:i] + SAMPLES[j:], 1):
        return False
    wav.insert(t0, seg)
    return wav.frames == audio.convertToBytes(SAMPLES, 1)

def h_getframes_w2_ongrid(k0: float, k1: float) -> bool:
    """
    pre: 0 <= k0 <= k1 <= 8 and k0 == int(k0) and k1 == int(k1)
    post: _
    """
    wav = _wav(2, 8)
    got = wav.getFrames(k0 / 8, k1 / 8)
    return got == audio.convertToBytes(SAMPLES[int(k0):int(k1)], 2)

def h_getframes_w2_aligned(t0: float, t1: float) -> bool:
    """
    pre: 0 <= t0 <= t1 <= 1
    pre: round(t0 * 8 * 2) % 2 == 0 and round(t1 * 8 * 2) % 2 == 0
    post: _
    """
    wav = _wav(2, 8)
    got = wav.getFrames(t0, t1)
    i, j = round(t0 * 8 * 2) // 2, round(t1 * 8 * 2) // 2
    return got == audio.convertToBytes(SAMPLES[i:j], 2)
