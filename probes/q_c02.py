from praatio.utilities import textgrid_io
from p4 import _tg
from spec_short import read_short
ALPH = '"a \n=1'
def h_c02_short(label: str) -> bool:
    """
    pre: len(label) <= 3
    pre: all(c in ALPH for c in label)
    post: _
    """
    txt = textgrid_io._tgToShortTextForm(_tg(label, "IntervalTier"))
    xmin, xmax, tiers = read_short(txt)
    return xmin == "0" and xmax == "1" and tiers == [("IntervalTier", "t", "0", "1", [("0", "1", label)])]
