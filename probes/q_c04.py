from praatio.utilities import textgrid_io
from praatio.utilities.constants import Interval

def h_fill(s1: float, e1: float, s2: float, e2: float, mn: float, mx: float) -> bool:
    """
    pre: 0 <= mn <= s1 < e1 <= s2 < e2 <= mx
    post: _
    """
    tier = {"class": "IntervalTier", "name": "t", "xmin": mn, "xmax": mx,
            "entries": [Interval(s1, e1, "x"), Interval(s2, e2, "y")]}
    textgrid_io._fillInBlanks(tier, "", mn, mx)
    es = tier["entries"]
    if es[0][0] != mn or es[-1][1] != mx:
        return False
    for p, q in zip(es, es[1:]):
        if p[1] != q[0]:
            return False
    for p in es:
        if not p[0] < p[1]:
            return False
    labelled = [(p[0], p[1], p[2]) for p in es if p[2] != ""]
    return labelled == [(s1, e1, "x"), (s2, e2, "y")]
