from praatio.utilities import textgrid_io
from praatio.utilities.constants import Interval

def h_sliver(s1: float, e1: float, s2: float, e2: float, mx: float, th: float) -> bool:
    """
    pre: 0 <= s1 < e1 <= s2 < e2 <= mx <= 100
    pre: 0 < th <= 1
    pre: mx >= th
    post: _
    """
    ents = [Interval(s1, e1, "x"), Interval(s2, e2, "y")]
    tg = {"xmin": 0.0, "xmax": mx, "tiers": [{"class": "IntervalTier", "name": "t", "xmin": 0.0, "xmax": mx, "entries": list(ents)}]}
    out = textgrid_io._prepTgForSaving(tg, True, None, None, th)
    es = list(out["tiers"][0]["entries"])
    # partition
    if len(es) == 0 or es[0][0] != 0.0 or es[-1][1] != mx:
        return False
    for p, q in zip(es, es[1:]):
        if p[1] != q[0]:
            return False
    # no sliver written
    for p in es:
        if p[1] - p[0] < th:
            return False
    # every long labelled interval is present with its label, in order
    want = [l for (a, b, l) in ents if b - a >= th]
    got = [p[2] for p in es if p[2] != ""]
    return got == want
