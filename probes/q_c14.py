from q_ops3 import sep, wf
from praatio.data_classes.interval_tier import IntervalTier
from praatio.data_classes.point_tier import PointTier
from praatio.utilities.constants import Interval, Point
from praatio.utilities import errors

def h_dejitter(s1: float, e1: float, r1: float, r2: float, md: float) -> bool:
    """
    pre: 0 <= s1 < e1 <= 100
    pre: 0 <= r1 < r2 <= 100
    pre: 0 < md <= 10
    pre: sep(s1, e1, r1, r2) and sep(s1 + md, r1, r2) and sep(s1 - md, r1, r2) and sep(e1 + md, r1, r2) and sep(e1 - md, r1, r2)
    post: _
    """
    t = IntervalTier("t", [Interval(s1, e1, "x")], 0.0, 100.0)
    ref = PointTier("r", [Point(r1, "a"), Point(r2, "b")], 0.0, 100.0)
    def near(x):
        best = r1 if abs(r1 - x) <= abs(r2 - x) else r2
        return best if abs(best - x) <= md else x
    try:
        out = t.dejitter(ref, md)
    except errors.PraatioException:
        return near(s1) >= near(e1)
    es = out.entries
    return len(es) == 1 and es[0].label == "x" and es[0].start == near(s1) and es[0].end == near(e1) and wf(out)

def h_shift(s1: float, e1: float, s2: float, e2: float, mx: float, off: float) -> bool:
    """
    pre: 0 <= s1 < e1 <= s2 < e2 <= mx <= 100
    pre: -200 <= off <= 200
    pre: e2 + off > 0
    post: _
    """
    t = IntervalTier("t", [Interval(s1, e1, "x"), Interval(s2, e2, "y")], 0.0, mx)
    out = t.editTimestamps(off, "silence")
    exp = []
    for (a, b, l) in [(s1, e1, "x"), (s2, e2, "y")]:
        a2, b2 = a + off, b + off
        if b2 <= 0: continue
        exp.append((max(a2, 0), b2, l))
    got = [(e.start, e.end, e.label) for e in out.entries]
    return got == exp and out.minTimestamp == 0.0 and out.maxTimestamp == max(mx, e2 + off)
