from praatio.utilities import utils, errors
from praatio import audio
from praatio.data_classes.interval_tier import IntervalTier
from praatio.data_classes.point_tier import PointTier
from praatio.utilities.constants import Interval, Point

def h_invert(a1: float, b1: float, a2: float, b2: float, lo: float, hi: float) -> bool:
    """
    pre: lo <= a1 < b1 <= a2 < b2 <= hi
    post: _
    """
    inv = utils.invertIntervalList([(a1, b1), (a2, b2)], lo, hi)
    exp = []
    if lo < a1: exp.append((lo, a1))
    if b1 < a2: exp.append((b1, a2))
    if b2 < hi: exp.append((b2, hi))
    return [tuple(x) for x in inv] == exp

def h_keepdelete(a1: float, b1: float, a2: float, b2: float, dur: float, keep: bool) -> bool:
    """
    pre: 0 <= a1 < b1 <= a2 < b2 <= dur
    post: _
    """
    ivs = [(a1, b1), (a2, b2)]
    out = audio._computeKeepDeleteIntervals(0.0, dur, ivs if keep else None, None if keep else ivs)
    # sorted partition of [0,dur] with right labels
    if out[0][0] != 0.0 or out[-1][1] != dur: return False
    for p, q in zip(out, out[1:]):
        if p[1] != q[0] or not p[0] < p[1]: return False
    mine = "keep" if keep else "delete"
    return [(s, e) for s, e, l in out if l == mine] == ivs

def h_nonentries(s1: float, e1: float, s2: float, e2: float, mx: float) -> bool:
    """
    pre: 0 <= s1 < e1 <= s2 < e2 <= mx
    post: _
    """
    t = IntervalTier("t", [Interval(s1, e1, "x"), Interval(s2, e2, "y")], 0.0, mx)
    ne = t.getNonEntries()
    allv = sorted([tuple(e)[:2] for e in t.entries] + [(n.start, n.end) for n in ne])
    if allv[0][0] != 0 or allv[-1][1] != mx: return False
    for p, q in zip(allv, allv[1:]):
        if p[1] != q[0]: return False
    return all(n.start < n.end and n.label == "" for n in ne)

def h_fuzzy(t0: float, a: float, b: float, c: float) -> bool:
    """
    pre: 0 <= a < b < c <= 100 and 0 <= t0 <= 100
    post: _
    """
    data = [(a, "A"), (b, "B"), (c, "C")]
    pt = PointTier("p", [Point(t0, "x")], 0.0, 100.0)
    got = pt.getValuesAtPoints(data, fuzzyMatching=True)[0]
    best = min(abs(x - t0) for x, _ in data)
    return abs(got[0] - t0) == best
