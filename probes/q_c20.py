import statistics
from praatio.utilities import my_math
from q_misc import ref_median_filter
def h_med_4_3_T(a: int, b: int, c: int, d: int) -> bool:
    """
    post: _
    """
    xs = [a, b, c, d]
    return my_math.medianFilter(xs, 3, True) == ref_median_filter(xs, 3, True)
def h_med_4_4_F(a: int, b: int, c: int, d: int) -> bool:
    """
    post: _
    """
    xs = [a, b, c, d]
    return my_math.medianFilter(xs, 4, False) == ref_median_filter(xs, 4, False)
def h_med_5_5_T(a: int, b: int, c: int, d: int, e: int) -> bool:
    """
    post: _
    """
    xs = [a, b, c, d, e]
    return my_math.medianFilter(xs, 5, True) == ref_median_filter(xs, 5, True)
