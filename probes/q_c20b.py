from praatio import pitch_and_intensity as pi
import math as _m
SQ = []
class _MathShim:
    def __getattr__(self, n): return getattr(_m, n)
    def sqrt(self, x):
        SQ.append(x); return 0.0
pi.math = _MathShim()   # environment stub: record sqrt argument

def h_measures(a: float, b: float, c: float) -> bool:
    """
    pre: -1000 <= a <= 1000 and -1000 <= b <= 1000 and -1000 <= c <= 1000
    post: _
    """
    del SQ[:]
    xs = [a, b, c]
    mean, mx, mn, rng, var, std = pi.getPitchMeasures(xs, "n", "l", None, False)
    m = (a + b + c) / 3
    v = ((a - m) * (a - m) + (b - m) * (b - m) + (c - m) * (c - m)) / 3
    return mean == m and mx == max(xs) and mn == min(xs) and rng == max(xs) - min(xs) and var == v and len(SQ) == 1 and SQ[0] == v

def h_measures_zero(a: float, b: float, c: float) -> bool:
    """
    pre: 0 <= a <= 1000 and 0 <= b <= 1000 and 0 <= c <= 1000
    post: _
    """
    del SQ[:]
    xs = [a, b, c]
    mean, mx, mn, rng, var, std = pi.getPitchMeasures(xs, "n", "l", None, True)
    kept = [x for x in xs if x != 0]
    if not kept:
        return (mean, mx, mn, rng, var, std) == (0.0, 0.0, 0.0, 0.0, 0.0, 0.0)
    m = sum(kept) / len(kept)
    return mean == m and mx == max(kept) and mn == min(kept)
