from praatio.data_classes.interval_tier import IntervalTier
from praatio.data_classes.point_tier import PointTier
from praatio.utilities.constants import Interval, Point
from praatio.utilities import errors

def h_insert(s1: float, e1: float, s2: float, e2: float, ns: float, ne: float, m: int) -> bool:
    """
    pre: 0 <= s1 < e1 <= s2 < e2 <= 1000
    pre: 0 <= ns < ne <= 2000
    pre: 0 <= m <= 2
    post: _
    """
    mode = ["error", "replace", "merge"][m]
    t = IntervalTier("t", [Interval(s1, e1, "x"), Interval(s2, e2, "y")], 0.0, 1000.0)
    old = [(s1, e1, "x"), (s2, e2, "y")]
    hit = [o for o in old if min(o[1], ne) - max(o[0], ns) > 0]
    hit = [o for o in old if o[1] > ns and o[0] < ne]
    try:
        t.insertEntry(Interval(ns, ne, "n"), mode, "silence")
    except errors.CollisionError:
        return mode == "error" and len(hit) > 0 and [tuple(e) for e in t.entries] == old
    if hit and mode == "error":
        return False
    if not hit or mode == "replace":
        exp = sorted([o for o in old if o not in hit] + [(ns, ne, "n")])
    else:
        grp = sorted(hit + [(ns, ne, "n")])
        exp = sorted([o for o in old if o not in hit] + [(min(g[0] for g in grp), max(g[1] for g in grp), "-".join(g[2] for g in grp))])
    got = [(e.start, e.end, e.label) for e in t.entries]
    return got == exp and t.minTimestamp == 0.0 and t.maxTimestamp == max(1000.0, ne)

def h_pinsert(t1: float, t2: float, nt: float, m: int) -> bool:
    """
    pre: 0 <= t1 < t2 <= 10
    pre: 0 <= nt <= 20
    pre: 0 <= m <= 2
    post: _
    """
    mode = ["error", "replace", "merge"][m]
    t = PointTier("p", [Point(t1, "x"), Point(t2, "y")], 0.0, 10.0)
    try:
        t.insertEntry(Point(nt, "n"), mode, "silence")
    except errors.CollisionError:
        return mode == "error" and (nt == t1 or nt == t2)
    return t.maxTimestamp >= nt and t.validate("silence")
