from q_ops3 import sep, wf
from praatio.data_classes.interval_tier import IntervalTier
from praatio.data_classes.point_tier import PointTier
from praatio.data_classes.textgrid import Textgrid
from praatio.utilities.constants import Interval, Point
from praatio.utilities import errors

def ref_erase(ents, a, b, mode, shrink):
    out = []
    for (s, e, l) in ents:
        if e <= a or s >= b:
            out.append((s, e, l)); continue
        if mode == "categorical":
            continue
        if s < a: out.append((s, a, l))
        if e > b: out.append((b, e, l))
    if shrink:
        d = b - a; res = []
        for (s, e, l) in out:
            if e <= a: res.append((s, e, l))
            else: res.append((s - d, e - d, l))
        # rejoin straddler
        j = []
        for x in res:
            if j and j[-1][1] == x[0] and j[-1][2] == x[2] and x[0] == a and any(s < a and e > b and l == x[2] for s, e, l in ents):
                j[-1] = (j[-1][0], x[1], x[2])
            else:
                j.append(x)
        out = j
    return out

def h_erase3(s1: float, e1: float, s2: float, e2: float, s3: float, e3: float, mx: float, a: float, b: float, m: int, sh: bool) -> bool:
    """
    pre: 0 <= s1 < e1 <= s2 < e2 <= s3 < e3 <= mx <= 1000
    pre: 0 <= a < b <= mx
    pre: 0 <= m <= 1
    pre: sep(s1, e1, s2, e2, s3, e3, mx, a, b)
    post: _
    """
    mode = ["truncate", "categorical"][m]
    ents = [(s1, e1, "x"), (s2, e2, "y"), (s3, e3, "z")]
    t = IntervalTier("t", [Interval(*e) for e in ents], 0.0, mx)
    r = t.eraseRegion(a, b, mode, sh)
    got = [(e.start, e.end, e.label) for e in r.entries]
    return got == ref_erase(ents, a, b, mode, sh) and r.maxTimestamp == (mx - (b - a) if sh else mx) and [tuple(e) for e in t.entries] == ents

def h_crop_rebase3(s1: float, e1: float, s2: float, e2: float, s3: float, e3: float, a: float, b: float, m: int) -> bool:
    """
    pre: 0 <= s1 < e1 <= s2 < e2 <= s3 < e3 <= 1000
    pre: 0 <= a < b <= 2000
    pre: 0 <= m <= 2
    post: _
    """
    mode = ["strict", "lax", "truncated"][m]
    ents = [(s1, e1, "x"), (s2, e2, "y"), (s3, e3, "z")]
    t = IntervalTier("t", [Interval(*e) for e in ents], 0.0, 1000.0)
    keep = []
    for (s, e, l) in ents:
        if e <= a or s >= b: continue
        if mode == "strict":
            if s >= a and e <= b: keep.append((s, e, l))
        elif mode == "lax": keep.append((s, e, l))
        else: keep.append((max(s, a), min(e, b), l))
    if not keep:
        return True   # known-finding region (empty + rebase) excluded here
    r = t.crop(a, b, mode, True)
    off = min(a, keep[0][0])
    exp = [(s - off, e - off, l) for s, e, l in keep]
    got = [(e.start, e.end, e.label) for e in r.entries]
    return got == exp and r.minTimestamp == 0.0 and r.maxTimestamp == max(b - a, exp[-1][1])
