import kg_min
from praatio.klattgrid import _openNormalKlattgrid
def h_kg(n: int) -> bool:
    """
    pre: 0 <= n <= 99
    post: _
    """
    txt = kg_min.mk(v3=str(n))
    kg = _openNormalKlattgrid(txt)
    d = kg_min.dump(kg)
    return d[2][3][0][1] == n
def h_kg_mid(n: int) -> bool:
    """
    pre: 0 <= n <= 99
    post: _
    """
    txt = kg_min.mk(v2=str(n), v3="12.5")
    kg = _openNormalKlattgrid(txt)
    d = kg_min.dump(kg)
    return d[1][3][0][1] == n
