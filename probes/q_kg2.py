from praatio import klattgrid as kgmod
REC = []
def _rec_float(s):
    if isinstance(s, (int, float)) and not isinstance(s, str):
        return float(s)
    REC.append(s)
    return 0.5
kgmod.float = _rec_float   # environment stub: float(str) records the token it is handed

def section(tok):
    return ('oral_formants? <exists> \nxmin = 0 \nxmax = 1 \nformants: size = 1 \nformants [1]:\n    xmin = 0 \n    xmax = 1 \n    points: size = 1 \n    points [1]:\n        number = 0.5 \n        value = 50 \n'
        'bandwidths: size = 1 \nbandwidths [1]:\n    xmin = 0 \n    xmax = 1 \n    points: size = 1 \n    points [1]:\n        number = 0.5 \n        value = ' + tok)
ALPH = "15."
def h_container(tok: str) -> bool:
    """
    pre: 1 <= len(tok) <= 2
    pre: all(c in ALPH for c in tok)
    post: _
    """
    del REC[:]
    kgmod._proccessContainerTierInput(section(tok), "oral_formants")
    return REC[-1] == tok
