from q_ops3 import sep, wf
from praatio.data_classes.interval_tier import IntervalTier
from praatio.utilities.constants import Interval
from praatio.utilities import errors
ALPH = "aAb"
def h_construct(s1: float, e1: float, s2: float, e2: float) -> bool:
    """
    pre: -10 <= s1 <= 10 and -10 <= e1 <= 10 and -10 <= s2 <= 10 and -10 <= e2 <= 10
    post: _
    """
    try:
        t = IntervalTier("t", [(s1, e1, " x "), (s2, e2, "y")])
    except errors.PraatioException:
        ok = s1 < e1 and s2 < e2 and (e1 <= s2 or e2 <= s1)
        return not ok
    return wf(t) and t.validate("silence") and [e.label for e in t.entries] in (["x", "y"], ["y", "x"])

def h_mergelabels(s1: float, e1: float, s2: float, e2: float, u1: float, v1: float) -> bool:
    """
    pre: 0 <= s1 < e1 <= s2 < e2 <= 100
    pre: 0 <= u1 < v1 <= 100
    pre: sep(s1, e1, s2, e2, u1, v1)
    post: _
    """
    A = IntervalTier("a", [Interval(s1, e1, "x"), Interval(s2, e2, "y")], 0.0, 100.0)
    B = IntervalTier("b", [Interval(u1, v1, "p")], 0.0, 100.0)
    R = A.mergeLabels(B)
    exp = []
    for (s, e, l) in [(s1, e1, "x"), (s2, e2, "y")]:
        if min(e, v1) - max(s, u1) > 0:
            exp.append((s, e, l + "(p)"))
    return [(e.start, e.end, e.label) for e in R.entries] == exp

def h_find(l1: str, l2: str, q: str, sub: bool) -> bool:
    """
    pre: len(l1) <= 2 and len(l2) <= 2 and len(q) <= 2
    pre: all(c in ALPH for c in l1 + l2 + q)
    post: _
    """
    A = IntervalTier("a", [Interval(0.0, 1.0, l1), Interval(1.0, 2.0, l2)], 0.0, 2.0)
    got = A.find(q, substrMatchFlag=sub)
    exp = [i for i, l in enumerate([l1, l2]) if ((q in l) if sub else (q == l))]
    return got == exp

def h_find_re(l1: str) -> bool:
    """
    pre: len(l1) <= 3
    pre: all(c in ALPH for c in l1)
    post: _
    """
    A = IntervalTier("a", [Interval(0.0, 1.0, l1)], 0.0, 2.0)
    got = A.find("^a+b?$", usingRE=True)
    low = l1.lower()
    exp = [0] if (len(low) >= 1 and ((all(c == "a" for c in low)) or (low[-1] == "b" and len(low) >= 2 and all(c == "a" for c in low[:-1])))) else []
    return got == exp
