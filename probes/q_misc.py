from typing import List
import statistics
from praatio.utilities import my_math
from praatio.data_classes.textgrid import Textgrid
from praatio.data_classes.interval_tier import IntervalTier
from praatio.utilities.constants import Interval
from praatio.utilities import errors

def ref_median_filter(xs, window, pad):
    n = len(xs); off = window // 2; out = []
    for i in range(n):
        if pad:
            ctx = [xs[min(max(j, 0), n - 1)] for j in range(i - off, i + off + 1)]
            out.append(statistics.median(ctx))
        elif i - off >= 0 and i + off < n:
            out.append(statistics.median(xs[i - off:i + off + 1]))
        else:
            out.append(xs[i])
    return out

def h_median(xs: List[int], window: int, pad: bool) -> bool:
    """
    pre: len(xs) <= 4 and 0 <= window <= 5
    post: _
    """
    return my_math.medianFilter(xs, window, pad) == ref_median_filter(xs, window, pad)

NAMES = ["a", "b", "c"]
def _tier(n): return IntervalTier(n, [Interval(0.0, 1.0, "x")], 0.0, 1.0)

def h_tgops(ops: List[int], args: List[int], idxs: List[int]) -> bool:
    """
    pre: len(ops) == 3 and len(args) == 3 and len(idxs) == 3
    pre: all(0 <= o <= 3 for o in ops) and all(0 <= a <= 2 for a in args) and all(-2 <= i <= 4 for i in idxs)
    post: _
    """
    tg = Textgrid(0.0, 1.0)
    model = []
    for o, a, i in zip(ops, args, idxs):
        name = NAMES[a]
        before = list(tg.tierNames)
        try:
            if o == 0:
                tg.addTier(_tier(name), i)
                if name in model: return False
                model.insert(i, name)
            elif o == 1:
                tg.removeTier(name)
                if name not in model: return False
                model.remove(name)
            elif o == 2:
                new = NAMES[(a + 1) % 3]
                tg.renameTier(name, new)
                if name not in model or new in model: return False
                model[model.index(name)] = new
            else:
                tg.replaceTier(name, _tier(NAMES[(a + 2) % 3]))
                if name not in model or (NAMES[(a + 2) % 3] in model): return False
                model[model.index(name)] = NAMES[(a + 2) % 3]
        except (errors.PraatioException, KeyError, ValueError):
            if list(tg.tierNames) != before:
                return False
            continue
        if list(tg.tierNames) != model:
            return False
    return True
