from q_ops3 import sep, wf
from praatio.data_classes.interval_tier import IntervalTier
from praatio.utilities.constants import Interval
from praatio.utilities import errors
from praatio import audio

def label_at(ents, lo, hi):
    for (s, e, l) in ents:
        if s <= lo and hi <= e:
            return l
    return None

def h_ins_erase_identity(s1: float, e1: float, s2: float, e2: float, mx: float, s: float, d: float, m: int) -> bool:
    """
    pre: 0 <= s1 < e1 <= s2 < e2 <= mx <= 1000
    pre: 0 <= s <= mx and 0 < d <= 1000
    pre: 0 <= m <= 1
    pre: sep(s1, e1, s2, e2, mx, s)
    post: _
    """
    mode = ["stretch", "split"][m]
    ents = [(s1, e1, "x"), (s2, e2, "y")]
    t = IntervalTier("t", [Interval(*e) for e in ents], 0.0, mx)
    r = t.insertSpace(s, d, mode).eraseRegion(s, s + d, "truncate", True)
    got = [(e.start, e.end, e.label) for e in r.entries]
    if r.maxTimestamp != mx or r.minTimestamp != 0.0:
        return False
    pts = sorted([0.0, s1, e1, s2, e2, s, mx])
    for lo, hi in zip(pts, pts[1:]):
        if lo < hi and label_at(got, lo, hi) != label_at(ents, lo, hi):
            return False
    return wf(r)

def h_morph(s1: float, e1: float, s2: float, e2: float, mx: float, u1: float, v1: float, u2: float, v2: float) -> bool:
    """
    pre: 0 <= s1 < e1 <= s2 < e2 <= mx <= 1000
    pre: 0 <= u1 < v1 <= u2 < v2 <= 1000
    post: _
    """
    A = IntervalTier("a", [Interval(s1, e1, "x"), Interval(s2, e2, "y")], 0.0, mx)
    B = IntervalTier("b", [Interval(u1, v1, "p"), Interval(u2, v2, "q")], 0.0, 1000.0)
    R = A.morph(B)
    es = R.entries
    if [e.label for e in es] != ["x", "y"]:
        return False
    ok = es[0].start == s1 and (es[0].end - es[0].start) == (v1 - u1) and (es[1].end - es[1].start) == (v2 - u2)
    ok = ok and (es[1].start - es[0].end) == (s2 - e1) and (R.maxTimestamp - es[1].end) == (mx - e2)
    return ok

class FakeReader:
    def __init__(self, samples, width, rate):
        self.frames = audio.convertToBytes(samples, width); self.w = width; self.rate = rate; self.n = len(samples); self.pos = 0
    def getparams(self): return (1, self.w, self.rate, self.n, "NONE", "not compressed")
    def setpos(self, p): self.pos = p
    def readframes(self, k):
        out = self.frames[self.pos * self.w:(self.pos + k) * self.w]; self.pos += k; return out
SAMPLES = (11, -12, 13, -14, 15, -16, 17, -18)
def h_keep(a1: float, b1: float, a2: float, b2: float) -> bool:
    """
    pre: 0 <= a1 < b1 <= a2 < b2 <= 1
    pre: a1 * 8 == round(a1 * 8) and b1 * 8 == round(b1 * 8) and a2 * 8 == round(a2 * 8) and b2 * 8 == round(b2 * 8)
    post: _
    """
    rd = FakeReader(SAMPLES, 1, 8)
    got = audio.readFramesAtTimes(rd, keepIntervals=[(a1, b1), (a2, b2)])
    i1, j1, i2, j2 = round(a1 * 8), round(b1 * 8), round(a2 * 8), round(b2 * 8)
    return got == audio.convertToBytes(SAMPLES[i1:j1] + SAMPLES[i2:j2], 1)
