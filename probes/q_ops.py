from typing import List, Tuple
from praatio.data_classes.interval_tier import IntervalTier
from praatio.data_classes.point_tier import PointTier
from praatio.utilities.constants import Interval, Point
from praatio.utilities import errors

def wf(t):
    es = t.entries
    ok = True
    for e in es:
        ok = ok and e.start < e.end and t.minTimestamp <= e.start and e.end <= t.maxTimestamp
    for x, y in zip(es, es[1:]):
        ok = ok and x.end <= y.start
    return ok

def mk2(s1, e1, s2, e2, mx):
    return IntervalTier("t", [Interval(s1, e1, "x"), Interval(s2, e2, "y")], 0.0, mx)

def h_insertspace(s: float, d: float, s1: float, e1: float, s2: float, e2: float, mx: float, m: int) -> bool:
    """
    pre: 0 <= s1 < e1 <= s2 < e2 <= mx
    pre: 0 <= s <= mx and d > 0
    pre: 0 <= m <= 2
    post: _
    """
    mode = ["stretch", "split", "no_change"][m]
    t = mk2(s1, e1, s2, e2, mx)
    r = t.insertSpace(s, d, mode)
    exp = []
    for (a, b, l) in [(s1, e1, "x"), (s2, e2, "y")]:
        if b <= s:
            exp.append((a, b, l))
        elif a >= s:
            exp.append((a + d, b + d, l))
        elif mode == "stretch":
            exp.append((a, b + d, l))
        elif mode == "split":
            exp.append((a, s, l)); exp.append((s + d, b + d, l))
        else:
            exp.append((a, b, l))
    got = [(e.start, e.end, e.label) for e in r.entries]
    return got == exp and r.maxTimestamp == mx + d and r.minTimestamp == 0.0

def h_union(s1: float, e1: float, s2: float, e2: float, u1: float, v1: float, u2: float, v2: float) -> bool:
    """
    pre: 0 <= s1 < e1 <= s2 < e2 <= 100
    pre: 0 <= u1 < v1 <= u2 < v2 <= 100
    post: _
    """
    A = mk2(s1, e1, s2, e2, 100.0)
    B = IntervalTier("b", [Interval(u1, v1, "p"), Interval(u2, v2, "q")], 0.0, 100.0)
    U = A.union(B)
    if not wf(U):
        return False
    # labelled-time equality: every boundary-delimited cell is labelled in U iff in A or B
    pts = sorted([0.0, s1, e1, s2, e2, u1, v1, u2, v2, 100.0])
    def lab(t, lo, hi):
        return any(e.start <= lo and hi <= e.end for e in t.entries)
    for lo, hi in zip(pts, pts[1:]):
        if lo < hi:
            if lab(U, lo, hi) != (lab(A, lo, hi) or lab(B, lo, hi)):
                return False
    return True

def h_diff_inter(s1: float, e1: float, s2: float, e2: float, u1: float, v1: float, u2: float, v2: float) -> bool:
    """
    pre: 0 <= s1 < e1 <= s2 < e2 <= 100
    pre: 0 <= u1 < v1 <= u2 < v2 <= 100
    post: _
    """
    A = mk2(s1, e1, s2, e2, 100.0)
    B = IntervalTier("b", [Interval(u1, v1, "p"), Interval(u2, v2, "q")], 0.0, 100.0)
    D = A.difference(B)
    I = A.intersection(B)
    if not (wf(D) and wf(I)):
        return False
    pts = sorted([0.0, s1, e1, s2, e2, u1, v1, u2, v2, 100.0])
    def lab(t, lo, hi):
        return any(e.start <= lo and hi <= e.end for e in t.entries)
    for lo, hi in zip(pts, pts[1:]):
        if lo < hi:
            a, b = lab(A, lo, hi), lab(B, lo, hi)
            if lab(D, lo, hi) != (a and not b):
                return False
            if lab(I, lo, hi) != (a and b):
                return False
    return True
