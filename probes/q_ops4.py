from q_ops3 import *
def h_union21(s1: float, e1: float, s2: float, e2: float, u1: float, v1: float) -> bool:
    """
    pre: 0 <= s1 < e1 <= s2 < e2 <= 100
    pre: 0 <= u1 < v1 <= 100
    pre: sep(s1, e1, s2, e2, u1, v1)
    post: _
    """
    A = mk2(s1, e1, s2, e2, 100.0)
    B = IntervalTier("b", [Interval(u1, v1, "p")], 0.0, 100.0)
    U = A.union(B)
    if not wf(U):
        return False
    pts = sorted([0.0, s1, e1, s2, e2, u1, v1, 100.0])
    def lab(t, lo, hi):
        return any(e.start <= lo and hi <= e.end for e in t.entries)
    for lo, hi in zip(pts, pts[1:]):
        if lo < hi:
            if lab(U, lo, hi) != (lab(A, lo, hi) or lab(B, lo, hi)):
                return False
    return True

def h_diff21(s1: float, e1: float, s2: float, e2: float, u1: float, v1: float) -> bool:
    """
    pre: 0 <= s1 < e1 <= s2 < e2 <= 100
    pre: 0 <= u1 < v1 <= 100
    pre: sep(s1, e1, s2, e2, u1, v1)
    post: _
    """
    A = mk2(s1, e1, s2, e2, 100.0)
    B = IntervalTier("b", [Interval(u1, v1, "p")], 0.0, 100.0)
    D = A.difference(B)
    I = A.intersection(B)
    if not (wf(D) and wf(I)):
        return False
    pts = sorted([0.0, s1, e1, s2, e2, u1, v1, 100.0])
    def lab(t, lo, hi):
        return any(e.start <= lo and hi <= e.end for e in t.entries)
    for lo, hi in zip(pts, pts[1:]):
        if lo < hi:
            a, b = lab(A, lo, hi), lab(B, lo, hi)
            if lab(D, lo, hi) != (a and not b) or lab(I, lo, hi) != (a and b):
                return False
    return True
