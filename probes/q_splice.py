from praatio import audio, praatio_scripts
from praatio.data_classes.interval_tier import IntervalTier
from praatio.data_classes.textgrid import Textgrid
from praatio.utilities.constants import Interval
SAMPLES = (11, -12, 13, -14, 15, -16, 17, -18)
def _wav(samples, width=1, rate=8):
    return audio.Wav(audio.convertToBytes(samples, width), [1, width, rate, len(samples), "NONE", "not compressed"])

def h_splice(s1: float, e1: float, t: float) -> bool:
    """
    pre: 0 <= s1 < e1 <= 1 and 0 <= t <= 1
    pre: t * 8 == round(t * 8)
    pre: not (s1 < t < e1)
    post: _
    """
    wav = _wav(SAMPLES); seg = _wav((1, 2))
    tg = Textgrid(0.0, 1.0)
    tg.addTier(IntervalTier("w", [Interval(s1, e1, "x")], 0.0, 1.0))
    newWav, newTg = praatio_scripts.audioSplice(wav, seg, tg, "w", "NEW", t, None, False)
    if newWav.duration != 1.25 or newTg.maxTimestamp != 1.25:
        return False
    es = [tuple(e) for e in newTg.getTier("w").entries]
    new = (t, t + 0.25, "NEW")
    old = (s1, e1, "x") if e1 <= t else (s1 + 0.25, e1 + 0.25, "x")
    i = round(t * 8)
    return sorted(es) == sorted([new, old]) and newWav.frames == audio.convertToBytes(SAMPLES[:i] + (1, 2) + SAMPLES[i:], 1)
