from typing import List
from q_misc import NAMES, _tier
from praatio.data_classes.textgrid import Textgrid
from praatio.utilities import errors

def run_model(ops, args, idxs):
    """list model; returns (trace of name lists, hit_known_region)"""
    model = []; region = False
    for o, a, i in zip(ops, args, idxs):
        name = NAMES[a]
        if o == 0:
            if name not in model: model.insert(i, name)
        elif o == 1:
            if name in model: model.remove(name)
        elif o == 2:
            new = NAMES[(a + 1) % 3]
            if name in model:
                if new in model: region = True
                else: model[model.index(name)] = new
        else:
            new = NAMES[(a + 2) % 3]
            if name in model:
                if new in model: region = True
                else: model[model.index(name)] = new
    return model, region

def h_tg_hist(ops: List[int], args: List[int], idxs: List[int]) -> bool:
    """
    pre: len(ops) == 3 and len(args) == 3 and len(idxs) == 3
    pre: all(0 <= o <= 3 for o in ops) and all(0 <= a <= 2 for a in args) and all(-2 <= i <= 4 for i in idxs)
    pre: not run_model(ops, args, idxs)[1]
    post: _
    """
    tg = Textgrid(0.0, 1.0)
    model = []
    for o, a, i in zip(ops, args, idxs):
        name = NAMES[a]
        before = list(tg.tierNames)
        try:
            if o == 0:
                tg.addTier(_tier(name), i)
                if name in model: return False
                model.insert(i, name)
            elif o == 1:
                tg.removeTier(name)
                if name not in model: return False
                model.remove(name)
            elif o == 2:
                new = NAMES[(a + 1) % 3]
                tg.renameTier(name, new)
                if name not in model or new in model: return False
                model[model.index(name)] = new
            else:
                new = NAMES[(a + 2) % 3]
                tg.replaceTier(name, _tier(new))
                if name not in model or new in model: return False
                model[model.index(name)] = new
        except (errors.PraatioException, KeyError, ValueError):
            if list(tg.tierNames) != before:
                return False
            continue
        if list(tg.tierNames) != model:
            return False
        if [t.name for t in tg.tiers] != model:
            return False
    return True
