from typing import List
from q_tg2 import run_model
from q_misc import NAMES, _tier
from praatio.data_classes.textgrid import Textgrid
from praatio.utilities import errors

def step(tg, model, o, a, i):
    name = NAMES[a]
    before = list(tg.tierNames)
    try:
        if o == 0:
            tg.addTier(_tier(name), i)
            if name in model: return False
            model.insert(i, name)
        elif o == 1:
            tg.removeTier(name)
            if name not in model: return False
            model.remove(name)
        elif o == 2:
            new = NAMES[(a + 1) % 3]
            tg.renameTier(name, new)
            if name not in model or new in model: return False
            model[model.index(name)] = new
        else:
            new = NAMES[(a + 2) % 3]
            tg.replaceTier(name, _tier(new))
            if name not in model or new in model: return False
            model[model.index(name)] = new
    except (errors.PraatioException, KeyError, ValueError):
        return list(tg.tierNames) == before
    return list(tg.tierNames) == model and [t.name for t in tg.tiers] == model

def mk(o1, o2, o3):
    def h(a1: int, a2: int, a3: int, i1: int, i2: int, i3: int) -> bool:
        """
        pre: 0 <= a1 <= 2 and 0 <= a2 <= 2 and 0 <= a3 <= 2
        pre: -2 <= i1 <= 4 and -2 <= i2 <= 4 and -2 <= i3 <= 4
        pre: not run_model([O1, O2, O3], [a1, a2, a3], [i1, i2, i3])[1]
        post: _
        """
        tg = Textgrid(0.0, 1.0); model = []
        for o, a, i in ((O1, a1, i1), (O2, a2, i2), (O3, a3, i3)):
            if not step(tg, model, o, a, i):
                return False
        return True
    h.__doc__ = h.__doc__.replace("O1", str(o1)).replace("O2", str(o2)).replace("O3", str(o3))
    h.__globals__.update(O1=o1, O2=o2, O3=o3)
    return h
h_aar = mk(0, 0, 2)
