from praatio.data_classes.interval_tier import IntervalTier
from praatio.data_classes.point_tier import PointTier
from praatio.data_classes.textgrid import Textgrid
from praatio.utilities.constants import Interval, Point

def snap(tg):
    return [(t.name, t.minTimestamp, t.maxTimestamp, [tuple(e) for e in t.entries]) for t in tg.tiers]

def h_tg_insertspace(s1: float, e1: float, p1: float, mx: float, s: float, d: float, m: int) -> bool:
    """
    pre: 0 <= s1 < e1 <= mx <= 1000 and 0 <= p1 <= mx
    pre: 0 <= s <= mx and 0 < d <= 1000
    pre: 0 <= m <= 2
    post: _
    """
    mode = ["stretch", "split", "no_change"][m]
    tg = Textgrid(0.0, mx)
    it = IntervalTier("i", [Interval(s1, e1, "x")], 0.0, mx)
    pt = PointTier("p", [Point(p1, "q")], 0.0, mx)
    tg.addTier(it); tg.addTier(pt)
    before = snap(tg)
    r = tg.insertSpace(s, d, mode)
    if snap(tg) != before:
        return False
    if r.tierNames != ("i", "p"):
        return False
    ok = r.getTier("i") == it.insertSpace(s, d, mode) and r.getTier("p") == pt.insertSpace(s, d, mode)
    return ok and r.validate("silence") and r.maxTimestamp == mx + d

def h_tg_append(s1: float, e1: float, mxa: float, s2: float, e2: float, mxb: float, same: bool, only: bool) -> bool:
    """
    pre: 0 <= s1 < e1 <= mxa <= 1000
    pre: 0 <= s2 < e2 <= mxb <= 1000
    post: _
    """
    A = Textgrid(0.0, mxa); A.addTier(IntervalTier("a", [Interval(s1, e1, "x")], 0.0, mxa))
    B = Textgrid(0.0, mxb); B.addTier(IntervalTier("a" if same else "b", [Interval(s2, e2, "y")], 0.0, mxb))
    sa, sb = snap(A), snap(B)
    R = A.appendTextgrid(B, only)
    if snap(A) != sa or snap(B) != sb:
        return False
    if R.maxTimestamp != mxa + mxb or R.minTimestamp != 0.0:
        return False
    if same:
        return R.tierNames == ("a",) and [tuple(e) for e in R.getTier("a").entries] == [(s1, e1, "x"), (s2 + mxa, e2 + mxa, "y")]
    if only:
        return R.tierNames == ()
    return R.tierNames == ("a", "b") and [tuple(e) for e in R.getTier("a").entries] == [(s1, e1, "x")] \
        and [tuple(e) for e in R.getTier("b").entries] == [(s2 + mxa, e2 + mxa, "y")]
