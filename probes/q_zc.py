from typing import List, Tuple
from praatio import audio
from praatio.utilities import errors

class ListWav(audio.AbstractWav):
    def __init__(self, samples, rate):
        self.samples = samples
        super().__init__([1, 2, rate, len(samples), "NONE", "not compressed"])
    @property
    def duration(self):
        return len(self.samples) / self.frameRate
    def getFrames(self, s, e):
        raise NotImplementedError
    def getSamples(self, s, e):
        i = round(s * self.frameRate); j = round(e * self.frameRate)
        return tuple(self.samples[i:j])

def h_zc(a: int, b: int, c: int, d: int, e: int, k: int) -> bool:
    """
    pre: -2 <= a <= 2 and -2 <= b <= 2 and -2 <= c <= 2 and -2 <= d <= 2 and -2 <= e <= 2
    pre: 0 <= k <= 5
    post: _
    """
    xs = [a, b, c, d, e]
    w = ListWav(xs, 8)
    try:
        t = w.findNearestZeroCrossing(k / 8, 0.25)
    except (errors.FindZeroCrossingError, errors.ArgumentError):
        return True
    if not (0 <= t <= w.duration):
        return False
    i = t * 8
    if i != int(i):
        return False
    i = int(i)
    if i >= len(xs):
        return False
    def sg(v): return (v > 0) - (v < 0)
    ok = xs[i] == 0
    if i > 0: ok = ok or sg(xs[i]) != sg(xs[i - 1])
    if i + 1 < len(xs): ok = ok or sg(xs[i]) != sg(xs[i + 1])
    return ok
