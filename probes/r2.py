from praatio.data_classes.interval_tier import IntervalTier
from praatio.utilities.constants import Interval
import random, traceback
def run(a,b,s1,e1,s2,e2,mx):
    t = IntervalTier("t", [Interval(s1, e1, "x"), Interval(s2, e2, "y")], 0.0, mx)
    return t.eraseRegion(a, b, "truncate", True)
try:
    print(run(3.3951940756e-313, 2.162060661571492e-307, -0.0, 8.0997e-320, 3.39519407547e-313, 3.395232617764367e-139, 3.395232617764367e-139).entries)
except Exception as e:
    print(type(e).__name__, str(e)[:300])
random.seed(1)
n=0; fails=0
ex=None
for i in range(20000):
    pts = sorted(round(random.uniform(0,10),3) for _ in range(6))
    s1,a,e1,s2,b,e2 = pts
    if not (s1<a<e1<=s2<b<e2): continue
    n+=1
    try:
        run(a,b,s1,e1,s2,e2,e2)
    except Exception as e:
        fails+=1
        if ex is None: ex=(pts,type(e).__name__,str(e)[:200])
print(n,fails,ex)
