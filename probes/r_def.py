import os, tempfile, traceback
from praatio import textgrid, klattgrid
from praatio.utilities import textgrid_io
from praatio.data_classes.interval_tier import IntervalTier
from praatio.data_classes.point_tier import PointTier
from praatio.data_classes.textgrid import Textgrid
from praatio.utilities.constants import Interval, Point
def tryit(name, f):
    try:
        print(name, "->", f())
    except Exception as e:
        print(name, "-> EXC", type(e).__name__, str(e)[:120].replace("\n"," "))
d = tempfile.mkdtemp()
def rt(tg, fmt, blanks=False, incl=True):
    fn = os.path.join(d, "x.TextGrid"); tg.save(fn, fmt, blanks); r = textgrid.openTextgrid(fn, incl)
    return [(t.name, t.minTimestamp, t.maxTimestamp, [tuple(e) for e in t.entries]) for t in r.tiers]
tg = Textgrid(0.0, 1.0); tg.addTier(IntervalTier("a", [Interval(0.00005, 0.5, "x")], 0.0, 1.0))
for fmt in ("short_textgrid", "long_textgrid", "json", "textgrid_json"):
    tryit("D2 small time " + fmt, lambda: rt(tg, fmt))
tg = Textgrid(0.0, 1.0); tg.addTier(PointTier("p", [Point(0.5, 'say "hi"')], 0.0, 1.0))
for fmt in ("short_textgrid", "long_textgrid"):
    tryit("D1 point quote " + fmt, lambda: rt(tg, fmt))
tg = Textgrid(0.0, 1.0); tg.addTier(IntervalTier("a", [Interval(0.1, 0.5, 'item [2]:')], 0.0, 1.0))
for fmt in ("short_textgrid", "long_textgrid"):
    tryit("D4 keyword label " + fmt, lambda: rt(tg, fmt))
tg = Textgrid(0.0, 1.0); tg.addTier(IntervalTier("a", [Interval(0.1, 0.5, 'x "IntervalTier" y')], 0.0, 1.0))
for fmt in ("short_textgrid", "long_textgrid"):
    tryit("D4b keyword label " + fmt, lambda: rt(tg, fmt))
t = IntervalTier("a", [Interval(0.1, 0.5, "x")], 0.0, 1.0)
tryit("D5 crop empty rebase", lambda: t.crop(0.6, 0.9, "strict", True).entries)
tryit("D5 crop empty norebase", lambda: t.crop(0.6, 0.9, "strict", False).entries)
tryit("D8 shift all dropped", lambda: t.editTimestamps(-2.0, "silence").entries)
tryit("D8p shift all dropped pt", lambda: PointTier("p", [Point(0.5, 'a')], 0.0, 1.0).editTimestamps(-2.0, "silence").entries)
tryit("empty tier shift", lambda: IntervalTier("a", [], 0.0, 1.0).editTimestamps(1.0, "silence").entries)
tryit("D7 insertSpace split", lambda: IntervalTier("a", [Interval(0.1, 0.7, "x"), Interval(0.7, 0.9, "y")], 0.0, 1.0).insertSpace(0.3, 0.1, "split").entries)
tg = Textgrid(0.0, 1.0); tg.addTier(IntervalTier("a", [Interval(0.1, 0.5, 'x')], 0.0, 1.0)); tg.addTier(IntervalTier("b", [Interval(0.1, 0.5, 'x')], 0.0, 1.0))
tryit("D10 rename clash", lambda: tg.renameTier("a", "b")); print("   names after:", tg.tierNames)
tg = Textgrid(0.0, 1.0); tg.addTier(IntervalTier("a", [Interval(0.1, 0.5, 'x')], 0.0, 1.0))
tryit("D10 addTier error-mode", lambda: tg.addTier(IntervalTier("c", [Interval(0.1, 2.5, 'x')], 0.0, 3.0), reportingMode="error")); print("   names after:", tg.tierNames, tg.maxTimestamp)
# klatt
kg = klattgrid.openKlattgrid("/repo/tests/files/bobby.KlattGrid")
fn = os.path.join(d, "k.KlattGrid"); kg.save(fn); kg2 = klattgrid.openKlattgrid(fn)
def lastvals(k):
    out = {}
    for name in k.tierNames:
        t = k.getTier(name)
        if hasattr(t, "tierNameList"):
            for n2 in t.tierNameList:
                for n3 in t.tierDict[n2].tierNameList:
                    es = t.tierDict[n2].tierDict[n3].entries
                    if es: out[(name, n2, n3)] = es[-1]
    return out
a, b = lastvals(kg), lastvals(kg2)
diff = [(k, a[k], b.get(k)) for k in a if a[k] != b.get(k)]
print("D12 klatt roundtrip diffs:", len(diff), diff[:3])
import re
txt = open("/repo/tests/files/bobby.KlattGrid").read()
# compare against file: find last value of oral_formants
kg.tierDict if hasattr(kg,'tierDict') else None
print([ (k,v) for k,v in list(a.items())[-3:]])
print(txt[-200:])
