import z3, time, ast, inspect, re
from praatio.utilities import textgrid_io
# extract numeric regex literals from the live source
src = inspect.getsource(textgrid_io._parseNormalTextgrid)
pats = sorted({n.args[0].value for n in ast.walk(ast.parse(src)) if isinstance(n, ast.Call) and getattr(n.func, "id", "") == "reSearch" and isinstance(n.args[0], ast.Constant)})
print(pats)
D = z3.Range("0", "9")
def lit(s): return z3.Re(s)
digits1 = z3.Plus(D)
R_fixed = z3.Concat(digits1, lit("."), digits1)
R_exp = z3.Concat(D, z3.Option(z3.Concat(lit("."), digits1)), lit("e"), z3.Union(lit("-"), lit("+")), D, D, z3.Option(D))
R_int = digits1
R = z3.Union(R_fixed, R_exp, R_int)
# capture class of the reader: [\d.]+
CAP = z3.Plus(z3.Union(D, lit(".")))
s = z3.String("s")
sol = z3.Solver()
sol.add(z3.InRe(s, R), z3.Not(z3.InRe(s, CAP)), z3.Length(s) <= 8)
t0 = time.time(); r = sol.check(); print(r, sol.model()[s] if r == z3.sat else None, "%.2fs" % (time.time() - t0))
sol = z3.Solver()
sol.add(z3.InRe(s, z3.Union(R_fixed, R_int)), z3.Not(z3.InRe(s, CAP)))
t0 = time.time(); r = sol.check(); print("fixed+int subset:", r, "%.2fs" % (time.time() - t0))
