import ast, inspect, textwrap
from praatio.utilities import textgrid_io

def slice_loop_bodies(func, iter_name, target_name):
    src = textwrap.dedent(inspect.getsource(func))
    fdef = ast.parse(src).body[0]
    kernels = []
    for node in ast.walk(fdef):
        if isinstance(node, ast.For) and isinstance(node.iter, ast.Name) and node.iter.id == iter_name \
                and isinstance(node.target, ast.Name) and node.target.id == target_name:
            body = "\n".join(ast.unparse(st) for st in node.body)
            code = f"def kernel_{len(kernels)}({target_name}):\n    entries = []\n" + textwrap.indent(body, "    ") + "\n    return entries\n"
            ns = {}
            exec(compile(code, f"<slice of {func.__name__}>", "exec"), func.__globals__, ns)
            kernels.append(ns[f"kernel_{len(kernels)}"])
    return kernels

K_INTERVAL, K_POINT = slice_loop_bodies(textgrid_io._parseNormalTextgrid, "tierData", "element")
if __name__ == "__main__":
    print(K_INTERVAL('1]:\n            xmin = 0 \n            xmax = 1.5 \n            text = "a""b" \n'))
    print(K_POINT('1]:\n            number = 0.5 \n            mark = "a""b" \n'))
