"""Independent reader for the short TextGrid text form, written from Praat's format description:
a sequence of free-standing values: numbers, "strings" (with "" for a quote), <flags>."""
def tokens(text):
    out = []; i = 0; n = len(text)
    while i < n:
        c = text[i]
        if c == '"':
            j = i + 1; buf = []
            while True:
                if j >= n: raise ValueError("unterminated string")
                if text[j] == '"':
                    if j + 1 < n and text[j + 1] == '"':
                        buf.append('"'); j += 2; continue
                    break
                buf.append(text[j]); j += 1
            out.append(("s", "".join(buf))); i = j + 1
        elif c in " \t\n\r":
            i += 1
        else:
            j = i
            while j < n and text[j] not in ' \t\n\r"': j += 1
            out.append(("w", text[i:j])); i = j
    return out

def read_short(text):
    t = tokens(text)
    # File type = "ooTextFile" / Object class = "TextGrid"
    assert [x[1] for x in t[:8]] == ["File", "type", "=", "ooTextFile", "Object", "class", "=", "TextGrid"]
    p = 8
    xmin = t[p][1]; xmax = t[p + 1][1]; assert t[p + 2][1] == "<exists>"; ntiers = int(t[p + 3][1]); p += 4
    tiers = []
    for _ in range(ntiers):
        cls = t[p][1]; name = t[p + 1][1]; tmin = t[p + 2][1]; tmax = t[p + 3][1]; n = int(t[p + 4][1]); p += 5
        ents = []
        for _ in range(n):
            if cls == "IntervalTier":
                ents.append((t[p][1], t[p + 1][1], t[p + 2][1])); p += 3
            else:
                ents.append((t[p][1], t[p + 1][1])); p += 2
        tiers.append((cls, name, tmin, tmax, ents))
    assert p == len(t)
    return xmin, xmax, tiers
