#!/bin/bash
# Offline setup: nothing to build (praatio is pure Python and is imported from /repo's
# working tree on every run).  Verifies the tool chain and self-tests the shims.
set -e
cd "$(dirname "$0")"
export PYTHONDONTWRITEBYTECODE=1 PYTHONWARNINGS=ignore
PY=$(command -v python3-vt || echo /opt/veriftools/pyvenv/bin/python)
"$PY" -c "import crosshair, z3; print('crosshair', crosshair.__version__, 'z3', z3.get_version_string())"
/venv/bin/python -c "import sys; sys.path.insert(0, '/repo'); import praatio; print('praatio from', praatio.__file__)"
/venv/bin/python oracle/validate_spec.py
"$PY" engine/selftest.py
