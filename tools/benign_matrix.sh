#!/bin/bash
# runs every behaviour-preserving refactoring under benign/ against the quick check of its property
# (scratch worktree + PRAATIO_ROOT); a correct check exits 0 and prints no VIOLATION
# usage: tools/benign_matrix.sh [parallel=2] [regex] [outfile]
cd /verif; mkdir -p out; OUTF=${3:-out/benign_matrix.txt}; : > $OUTF; export OUTF
run_one() {
  b=$1; pid=$(python3 -c "import json;print(json.load(open('/verif/benign/$b/meta.json'))['property'])")
  r=$(VERIF_JOBS=${MATRIX_JOBS:-8} tools/try_patch.sh benign/$b/patch.diff $pid 2>&1)
  rc=$(echo "$r" | grep -o "exit=[0-9]*" | tail -1)
  v=$(echo "$r" | grep -c "VIOLATION")
  ne=$(echo "$r" | grep -c "NOT-ENCODED:")
  he=$(echo "$r" | grep -c "HARNESS-ERROR")
  last=$(echo "$r" | grep "tier=" | tail -1 | sed 's/.*\] \[/[/')
  echo "$b $pid $rc violations=$v not_encoded=$ne harness_errors=$he $last" >> $OUTF
  [ "$rc" = "exit=0" ] || echo "$r" > out/benign_$b.log
}
export -f run_one
ls benign | grep -E "${2:-.}" | xargs -P ${1:-2} -I{} bash -c 'run_one {}'
sort $OUTF -o $OUTF
