#!/bin/bash
# usage: tools/confirm_benign.sh NN a|b -- behaviour-preserving refactorings from sub-agents: source /tmp/wt_out/GNN, worktree /tmp/wt/GNN,
# stored as benign/CNN_a|b/{patch.diff,equiv.py,meta.json} when: tests pass with the patch and the differential digest is identical
n=$1; v=$2; wt=/tmp/wt/G$n; src=/tmp/wt_out/G$n; dst=/verif/benign/C${n}_$v
[ -f $src/patch_$v.diff ] || { echo "G$n $v: no patch"; exit 0; }
cd $wt && git checkout -q -- . && git clean -fdq
cp $src/equiv_$v.py $wt/_equiv.py
d_clean=$(timeout 600 /venv/bin/python _equiv.py 2>/dev/null | tail -1)
git apply $src/patch_$v.diff || { echo "G$n $v: patch does not apply"; exit 0; }
tests=$(/venv/bin/python -m pytest -q -p no:cacheprovider 2>&1 | tail -1)
d_mut=$(timeout 600 /venv/bin/python _equiv.py 2>/dev/null | tail -1)
git checkout -q -- . ; rm -f _equiv.py; git clean -fdq
ok=no
if [ -n "$d_clean" ] && [ "$d_clean" = "$d_mut" ] && echo "$tests" | grep -q "^367 passed"; then
  ok=yes; mkdir -p $dst; cp $src/patch_$v.diff $dst/patch.diff; cp $src/equiv_$v.py $dst/equiv.py
  python3 - "$src/meta_$v.json" "$dst/meta.json" "$tests" "$d_clean" <<'PY'
import json,sys
m=json.load(open(sys.argv[1]))
m["confirmed"]={"tests_with_patch":sys.argv[3],"digest_clean_and_patched":sys.argv[4]}
json.dump(m,open(sys.argv[2],"w"),indent=1)
PY
fi
echo "C${n}_$v benign: ok=$ok tests='$tests' digest_equal=$([ "$d_clean" = "$d_mut" ] && echo yes || echo NO)"
