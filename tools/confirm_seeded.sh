#!/bin/bash
# usage: tools/confirm_seeded.sh Cxx a|b   -- confirms a sub-agent's change in its scratch worktree and stores it under seeded/
pid=$1; v=$2; wt=/tmp/wt/$pid; src=/tmp/wt_out/$pid; dst=/verif/seeded/${pid}_$v
[ -f $src/patch_$v.diff ] || { echo "$pid $v: no patch"; exit 0; }
cd $wt && git checkout -q -- . && git clean -fdq
cp $src/demo_$v.py $wt/_demo.py
/venv/bin/python _demo.py >/tmp/wt_out/$pid/clean_$v.log 2>&1; rc_clean=$?
git apply $src/patch_$v.diff || { echo "$pid $v: patch does not apply"; exit 0; }
tests=$(/venv/bin/python -m pytest -q -p no:cacheprovider 2>&1 | tail -1)
/venv/bin/python _demo.py >/tmp/wt_out/$pid/mut_$v.log 2>&1; rc_mut=$?
git checkout -q -- . ; rm -f _demo.py
echo "$pid $v: clean_rc=$rc_clean mutated_rc=$rc_mut tests='$tests'"
if [ $rc_clean = 0 ] && [ $rc_mut = 1 ] && echo "$tests" | grep -q "^367 passed"; then
  mkdir -p $dst; cp $src/patch_$v.diff $dst/patch.diff; cp $src/demo_$v.py $dst/demo.py
  python3 - "$src/meta_$v.json" "$dst/meta.json" "$tests" <<'PY'
import json,sys
m=json.load(open(sys.argv[1]))
m["confirmed"]={"ran":["demo.py on clean worktree of /repo HEAD: exit 0 (PASS)","git apply patch.diff; /venv/bin/python -m pytest -q -p no:cacheprovider: "+sys.argv[3],"demo.py with patch applied: exit 1 (FAIL)"],"base":"repo HEAD at time of seeding (after fix: commits)"}
json.dump(m,open(sys.argv[2],"w"),indent=1)
PY
fi
