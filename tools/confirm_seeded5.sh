#!/bin/bash
# usage: tools/confirm_seeded5.sh NN a|b  -- wave 5: source /tmp/wt_out/HNN, worktree /tmp/wt/HNN, stored as seeded/CNN_i|j
n=$1; v=$2; wt=/tmp/wt/H$n; src=/tmp/wt_out/H$n; w=$([ $v = a ] && echo i || echo j); dst=/verif/seeded/C${n}_$w
[ -f $src/patch_$v.diff ] || { echo "H$n $v: no patch"; exit 0; }
cd $wt && git checkout -q -- . && git clean -fdq
cp $src/demo_$v.py $wt/_demo.py
timeout 120 /venv/bin/python _demo.py >$src/clean_$v.log 2>&1; rc_clean=$?
git apply $src/patch_$v.diff || { echo "H$n $v: patch does not apply"; exit 0; }
tests=$(/venv/bin/python -m pytest -q -p no:cacheprovider 2>&1 | tail -1)
timeout 120 /venv/bin/python _demo.py >$src/mut_$v.log 2>&1; rc_mut=$?
git checkout -q -- . ; rm -f _demo.py
echo "C${n}_$w: clean_rc=$rc_clean mutated_rc=$rc_mut tests='$tests'"
if [ $rc_clean = 0 ] && [ $rc_mut = 1 ] && echo "$tests" | grep -q "^367 passed"; then
  mkdir -p $dst; cp $src/patch_$v.diff $dst/patch.diff; cp $src/demo_$v.py $dst/demo.py
  python3 - "$src/meta_$v.json" "$dst/meta.json" "$tests" <<'PY'
import json,sys
m=json.load(open(sys.argv[1]))
m["wave"]=5
m["confirmed"]={"ran":["demo.py on clean worktree of /repo HEAD (8d7f3b3): exit 0 (PASS)","git apply patch.diff; /venv/bin/python -m pytest -q -p no:cacheprovider: "+sys.argv[3],"demo.py with patch applied: exit 1 (FAIL)"]}
json.dump(m,open(sys.argv[2],"w"),indent=1)
PY
fi
