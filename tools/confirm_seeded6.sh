#!/bin/bash
# usage: tools/confirm_seeded6.sh NN  -- wave 6: source /tmp/wt_out/KNN, worktree /tmp/wt/KNN, stored as seeded/CNN_k
n=$1; v=a; wt=/tmp/wt/K$n; src=/tmp/wt_out/K$n; dst=/verif/seeded/C${n}_k
[ -f $src/patch_$v.diff ] || { echo "K$n: no patch"; exit 0; }
cd $wt && git checkout -q -- . && git clean -fdq
cp $src/demo_$v.py $wt/_demo.py
timeout 120 /venv/bin/python _demo.py >$src/clean_$v.log 2>&1; rc_clean=$?
git apply $src/patch_$v.diff || { echo "K$n: patch does not apply"; exit 0; }
tests=$(/venv/bin/python -m pytest -q -p no:cacheprovider 2>&1 | tail -1)
timeout 120 /venv/bin/python _demo.py >$src/mut_$v.log 2>&1; rc_mut=$?
git checkout -q -- . ; rm -f _demo.py
echo "C${n}_k: clean_rc=$rc_clean mutated_rc=$rc_mut tests='$tests'"
if [ $rc_clean = 0 ] && [ $rc_mut = 1 ] && echo "$tests" | grep -q "^367 passed"; then
  mkdir -p $dst; cp $src/patch_$v.diff $dst/patch.diff; cp $src/demo_$v.py $dst/demo.py
  python3 - "$src/meta_$v.json" "$dst/meta.json" "$tests" <<'PY'
import json,sys
m=json.load(open(sys.argv[1]))
m["wave"]=6
m["confirmed"]={"ran":["demo.py on clean worktree of /repo HEAD (cb5f385): exit 0 (PASS)","git apply patch.diff; /venv/bin/python -m pytest -q -p no:cacheprovider: "+sys.argv[3],"demo.py with patch applied: exit 1 (FAIL)"]}
json.dump(m,open(sys.argv[2],"w"),indent=1)
PY
fi
