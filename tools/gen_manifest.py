"""Regenerates MANIFEST.json from the table below (python3 tools/gen_manifest.py)."""
import json
import os

VERIF = os.path.dirname(os.path.dirname(os.path.abspath(__file__)))
props = {json.loads(l)["id"]: json.loads(l) for l in open(os.path.join(VERIF, "properties.jsonl"))}

# id -> (technique, level text, level note, design ref)
CHECKS = {}


def add(pid, technique, text, note, ref):
    CHECKS[pid] = (technique, text, note, ref)


exec(open(os.path.join(VERIF, "tools", "manifest_table.py")).read())

BASE = "cd /repo && /venv/bin/python -m pytest -ra -q -p no:cacheprovider --timeout=900 --continue-on-collection-errors"
m = {
    "version": 1,
    "setup_cmd": "cd /verif && ./setup.sh",
    "hooks": {
        "guard": "PRAATIO_VERIF",
        "enable": "no hooks are needed: every observation point is an importable function; checks import /repo's working tree directly (PYTHONPATH) under python3-vt",
        "baseline_off_cmd": BASE,
        "source_commits": [],
        "add_only": True,
    },
    "engines": [
        {
            "name": "chdrv",
            "path": "engine/",
            "serves_properties": sorted(CHECKS),
            "kind_free_text": "CrossHair 0.0.110 (symbolic execution of the real praatio functions, z3) driven through its API with shims; KSMT (AST -> QF_FP) and RX (regex -> z3 sequence theory) for kernels CrossHair cannot model",
        }
    ],
    "checks": [],
    "not_applicable": [],
    "notes": "All checks: ./check <id> [--tier quick|thorough]; exit 0 held / 1 VIOLATION / 3 harness error. Replays: ./check --replay <file>. Known findings: known_findings.json.",
}
for pid in sorted(props):
    if pid in CHECKS:
        tech, text, note, ref = CHECKS[pid]
        m["checks"].append(
            {
                "property_id": pid,
                "quick_cmd": "./check %s --tier quick" % pid,
                "thorough_cmd": "./check %s --tier thorough" % pid,
                "evidence_file": "/verif/evidence/%s.json" % pid,
                "replay_cmd_template": "./check --replay {path}",
                "engine": "chdrv",
                "level_claimed": {"category": "other", "text": text, "design_ref": ref},
                "level_note": note,
                "technique": tech,
            }
        )
    else:
        m["not_applicable"].append({"property_id": pid, "reason": NOT_YET.get(pid, "check not built yet in this session (work in progress; see DESIGN.md section 3 for the planned obligations)")})
json.dump(m, open(os.path.join(VERIF, "MANIFEST.json"), "w"), indent=1)
print("checks:", [c["property_id"] for c in m["checks"]])
