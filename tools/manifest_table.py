# included by gen_manifest.py
NOT_YET = {}
CH = "bounded symbolic execution of the real functions (CrossHair/z3) against an independent reference model; counterexamples replayed on the real code"
NOTE = "trusted: CPython semantics, CrossHair 0.0.110 models of builtins + the shims of DESIGN 2.2 (self-tested by setup.sh), z3; the reference models in /verif/oracle; bounds as listed in the evidence file"

add("C06", CH + "; comparison-only paths on IEEE binary64, rebasing on exact reals",
    "All-paths verdict, within <=2 (quick) / <=3 (thorough) entries per tier and windows anywhere in [-1000,1000], that IntervalTier.crop / PointTier.crop / Textgrid.crop equal the reference crop (entries, labels, span, widening, ArgumentError for a>=b, receiver unchanged) for every mode and rebase setting. Path-wise symbolic execution enumerates the order types of boundaries against the window, which is exactly the quantifier of the property; nothing is claimed above the bounds.",
    NOTE, "DESIGN.md 3/C06")
