# included by gen_manifest.py
NOT_YET = {}
CH = "bounded symbolic execution of the real functions (CrossHair/z3) against an independent reference model; counterexamples replayed on the real code"
NOTE = "trusted: CPython semantics, CrossHair 0.0.110 models of builtins + the shims of DESIGN 2.2 (self-tested by setup.sh), z3; the reference models in /verif/oracle; bounds as listed in the evidence file"

add("C06", CH + "; comparison-only paths on IEEE binary64, rebasing on exact reals",
    "All-paths verdict, within <=2 (quick) / <=3 (thorough) entries per tier and windows anywhere in [-1000,1000], that IntervalTier.crop / PointTier.crop / Textgrid.crop equal the reference crop (entries, labels, span, widening, ArgumentError for a>=b, receiver unchanged) for every mode and rebase setting. Path-wise symbolic execution enumerates the order types of boundaries against the window, which is exactly the quantifier of the property; nothing is claimed above the bounds.",
    NOTE, "DESIGN.md 3/C06")

add("C07", CH + "; rounding clause by AST-sliced kernels translated to QF_FP (z3 + cvc5)",
    "All-paths verdict (exact reals, <=2 quick / <=3 thorough entries, 3 collision modes x shrink) that IntervalTier/PointTier/Textgrid.eraseRegion equal the reference erase incl. span bookkeeping, CollisionError/ArgumentError conditions and receiver immutability; plus solver verdicts over all binary64 timestamps in [2^-20,2^20] that the shrink kernel maps the region end exactly onto its start and never moves an interval before it. The bounded no-collapse clause is attempted in the thorough tier and reported UNKNOWN when the solvers do not finish.",
    NOTE + "; KSMT translator subset (engine/ksmt.py); real-mode verdicts say nothing about rounding", "DESIGN.md 3/C07")
add("C08", CH + "; rounding clause by AST-sliced kernels translated to QF_FP (z3 + cvc5)",
    "All-paths verdict (exact reals) that insertSpace equals the reference for every collision mode on interval, point and multi-tier textgrids (incl. an empty tier), that error mode raises iff an interval straddles, and that insertSpace followed by eraseRegion(shrink) restores the label-at-time function and span; plus a QF_FP verdict over all binary64 inputs in range that two adjacent intervals stay exactly adjacent after a split/stretch.",
    NOTE + "; KSMT translator subset (engine/ksmt.py)", "DESIGN.md 3/C08")

add("C09", CH,
    "All-paths verdict (exact reals, <=2 quick / <=3 thorough entries) that editTimestamps equals the reference shift (drop before 0, clip at 0, span grows/never shrinks, OutOfBounds/warning/silence exactly when an entry leaves the old span), appendTier and appendTextgrid equal the reference concatenation for equal/overlapping/disjoint name sets and both onlyMatchingNames settings (B shifted by textgrid A's end even when A's tier ends earlier), and +x;-x restores the entries.",
    NOTE + "; print() in praatio.utilities.utils replaced by a recorder to observe warnings", "DESIGN.md 3/C09")
add("C11", CH + "; collision test additionally on IEEE binary64",
    "All-paths verdict (exact reals; <=2 quick / <=3 thorough existing entries; new entry anywhere incl. outside the span, touching, overlapping several, containing, contained) that insertEntry equals the list model for error/replace/merge x silence/warning incl. label join order, span growth, unchanged tier on CollisionError, and that deleteEntry removes exactly the given entry or raises; binary64 verdict that distinct point times never collide.",
    NOTE, "DESIGN.md 3/C11")
add("C05", CH + "; inductive step from an arbitrary well-formed state instead of operation histories",
    "For each of the 16 operations x modes of the property: from ANY well-formed tier within the size bound (<=2 quick / <=3 thorough entries, second operand <=1/2) and ANY arguments in [-1024,1024], the result is well-formed and validate() agrees, or a praatio error is raised; constructors from arbitrary raw entries (all finite binary64 times, unsorted/overlapping/unstripped labels). Because well-formedness is both pre- and postcondition the confirmed steps compose to histories of any length within the per-step bound.",
    NOTE + "; deleteEntry's ValueError for an absent entry is accepted as its documented behaviour", "DESIGN.md 3/C05")

add("C10", CH,
    "All-paths verdict (exact reals; A x B sizes 2x1 and 1x2 quick, up to 2x2/3x1 thorough) that union, difference, intersection and mergeLabels satisfy the cell-wise algebra of labelled time (every elementary cell between consecutive boundaries is labelled in the result iff the Boolean combination of the operands says so), with exact entry lists: one intersection entry per overlapping pair labelled a-b, fused union entries = connected components with labels joined in time order, difference = maximal runs with A's labels, mergeLabels keeps exactly A's overlapped intervals with B's labels in parentheses; point union = union of times with coinciding labels joined; operands unchanged.",
    NOTE, "DESIGN.md 3/C10")

add("C12", CH + "; one inductive step from an arbitrary invariant-satisfying textgrid instead of operation histories",
    "From any textgrid satisfying the representation invariant (<=3 tiers over 4 names, symbolic spans) one addTier (index -6..6 or None) / removeTier / renameTier / replaceTier equals the Python-list model, rejects duplicate names, only widens the span and re-establishes the invariant, so the steps compose to histories of any length; mergeTiers equals the union fold in selection order; the Textgrid-level crop/eraseRegion/insertSpace/editTimestamps obligations of C06-C09 (result tiers == tier-level operation, names/order kept, validate() true). Names and indices end up in dict keys and list.insert, which CrossHair concretises: for those dimensions the run is an exhaustive enumeration, the solver decides the span arithmetic.",
    NOTE, "DESIGN.md 3/C12")
add("C13", CH + "; snapshot-before == snapshot-after as the only postcondition",
    "For every copy-returning tier and textgrid operation of the property (all modes, <=1 quick / <=2 thorough entries, arbitrary arguments incl. failing ones) receiver and argument snapshots (names, order, spans, entries) are unchanged on success and on exception; insertEntry/deleteEntry and every failing argument class of addTier/removeTier/renameTier/replaceTier leave the object exactly as before; Textgrid.save never mutates the textgrid and never opens the destination when validation or serialisation raises (io.open replaced by a recorder).",
    NOTE + "; io.open, numToStr and json.dumps stubbed in the save obligations (bytes on disk outside the claim)", "DESIGN.md 3/C13")

add("C14", CH,
    "All-paths verdict (exact reals) that dejitter moves each timestamp to a nearest reference timestamp iff it lies within maxDifference (inclusive) and leaves it untouched otherwise, keeps count/order/labels/span, raises exactly when the adjusted tier would collapse or cross, for interval and point tiers against interval and point references; alignBoundariesAcrossTiers = dejitter of every non-reference tier with the reference untouched; morph gives each selected interval its counterpart's duration preserving labels (incl. blank labels), gaps, first start and trailing gap for four filters; mismatched counts raise SafeZipException.",
    NOTE + "; tie-breaking between equidistant reference candidates accepted either way", "DESIGN.md 3/C14")
add("C15", CH + "; comparison-only helpers on IEEE binary64, strings over a 4-letter alphabet",
    "All-paths verdicts that find (exact/substring over symbolic labels and queries; six fixed regexes, case-insensitive, against an independent matcher), getNonEntries (positive-length blanks tiling [0,max]), timestamps, getValuesInIntervals (start <= t <= end for samples in any order incl. boundary hits), getValuesAtPoints exact and fuzzy (a nearest sample), intervalOverlapCheck with boundary/time/percent options, invertIntervalList (complement within optional bounds, unsorted input, empty list), tier/textgrid equality (reflexive, symmetric, sensitive to name/type/label/count/span/time/tier order) and validate() for tiers with arbitrary corrupt entries/spans and textgrids with mismatching spans agree with their definitions.",
    NOTE + "; regex semantics for the six fixed patterns are re-implemented by hand in the harness", "DESIGN.md 3/C15")
