#!/bin/bash
# runs every seeded change against the quick check of its own property (scratch worktree + PRAATIO_ROOT)
# usage: tools/matrix.sh [parallel=2]  -> out/matrix.txt
cd /verif; mkdir -p out; : > ${3:-out/matrix.txt}
par=${1:-2}; export OUTF=${3:-out/matrix.txt}
run_one() {
  s=$1; pid=${s%%_*}
  r=$(VERIF_JOBS=${MATRIX_JOBS:-8} tools/try_seeded.sh $s $pid 2>&1)
  v=$(echo "$r" | grep -c "VIOLATION")
  last=$(echo "$r" | grep "tier=" | tail -1 | sed 's/.*\] //')
  obs=$(echo "$r" | grep "obligation=" | sed 's/.*obligation=\([^ ]*\).*/\1/' | sort -u | tr '\n' ',' )
  echo "$s caught=$([ $v -gt 0 ] && echo yes || echo NO) violations=$v [$obs] $last" >> ${OUTF}
}
export -f run_one
ls seeded | grep -E "${2:-.}" | xargs -P $par -I{} bash -c 'run_one {}'
sort $OUTF -o $OUTF
