#!/bin/bash
# runs the quick tier of every property on /repo's working tree, one after the other; summary in out/quick_all.txt
cd /verif; mkdir -p out; : > out/quick_all.txt
for i in $(seq -w 1 20); do
  pid=C$i; start=$(date +%s)
  ./check $pid --tier quick > out/quick_$pid.log 2>&1; rc=$?
  echo "$pid rc=$rc wall=$(( $(date +%s) - start ))s $(tail -1 out/quick_$pid.log)" >> out/quick_all.txt
done
