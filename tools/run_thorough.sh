#!/bin/bash
# runs the thorough tier of the given properties one after the other, keeps a copy of each evidence file
cd /verif; mkdir -p out evidence_thorough
for pid in "$@"; do
  start=$(date +%s)
  ./check $pid --tier thorough > out/thorough_$pid.log 2>&1; rc=$?
  cp evidence/$pid.json evidence_thorough/$pid.json 2>/dev/null
  echo "$pid rc=$rc wall=$(( $(date +%s) - start ))s $(tail -1 out/thorough_$pid.log)" >> out/thorough_summary.txt
done
