#!/bin/bash
# usage: tools/try_patch.sh <patch file> <Cxx> [extra check args]
# applies a patch in a scratch worktree (outside /repo and /verif) and runs the check against it via PRAATIO_ROOT; prints the exit code
p=$(readlink -f $1); pid=$2; shift; shift
tag=$(basename $(dirname $p))_$(basename $p .diff); wt=/tmp/wt/tryp_${tag}_$pid
[ -d $wt ] || git -C /repo worktree add -q --detach $wt HEAD
cd $wt && git checkout -q -- . && git apply $p || { echo "apply failed"; exit 2; }
cd /verif && PRAATIO_ROOT=$wt ./check $pid --no-canary "$@" 2>&1 | grep -E "VIOLATION|outcome=|INCONC|HARNESS|UNKNOWN|KNOWN|NOT-ENCODED|tier=" | cut -c1-260 | sed "s/^/[$tag $pid] /"
rc=${PIPESTATUS[0]}
echo "[$tag $pid] exit=$rc"
git -C /repo worktree remove --force $wt
