#!/bin/bash
# usage: tools/try_seeded.sh <seeded dir name e.g. C06_a> [property id to check, default = its own] [extra check args]
# applies the seeded patch in a scratch worktree and runs the check against it via PRAATIO_ROOT
s=$1; pid=${2:-${s%%_*}}; shift; shift
wt=/tmp/wt/try_$s
[ -d $wt ] || git -C /repo worktree add -q --detach $wt HEAD
cd $wt && git checkout -q -- . && git apply /verif/seeded/$s/patch.diff || { echo "apply failed"; exit 2; }
cd /verif && PRAATIO_ROOT=$wt ./check $pid --no-canary "$@" 2>&1 | grep -E "VIOLATION|outcome=|INCONC|HARNESS|UNKNOWN|KNOWN|tier=" | sed "s/^/[$s] /"
git -C /repo worktree remove --force $wt
